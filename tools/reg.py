#!/usr/bin/env python3
"""reg.py <prop> <json-harness-spec>: add/replace a harness entry in harness/registry.json"""
import json, sys, os
V = os.path.dirname(os.path.dirname(os.path.abspath(__file__)))
p = os.path.join(V, 'harness', 'registry.json')
reg = json.load(open(p))
prop = sys.argv[1]
spec = json.loads(sys.argv[2])
e = reg.setdefault(prop, {"harnesses": []})
if "assumptions" in spec:
    e["assumptions"] = spec["assumptions"]
else:
    hs = [h for h in e["harnesses"] if not (h["func"] == spec["func"] and h.get("variant") == spec.get("variant"))]
    hs.append(spec)
    e["harnesses"] = hs
json.dump(reg, open(p, 'w'), indent=1)
