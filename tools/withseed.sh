#!/bin/bash
# withseed.sh <seed-id> <command...>: run a command with VERIF_REPO pointing at a scratch
# worktree of /repo that has the seeded mutation applied; outputs go to /tmp; cleaned up after.
ID=$1; shift
WT=/tmp/ws_$ID; OUT=/tmp/ws_$ID.out
git -C /repo worktree remove --force $WT 2>/dev/null; rm -rf $OUT; mkdir -p $OUT
git -C /repo worktree add -q --detach $WT HEAD || exit 2
trap 'git -C /repo worktree remove --force $WT 2>/dev/null; rm -rf $OUT' EXIT
git -C $WT apply /verif/seeded/$ID/patch.diff || exit 2
export GOFLAGS=-mod=mod GOPROXY=off GOSUMDB=off GOTOOLCHAIN=local
VERIF_REPO=$WT VERIF_OUT=$OUT "$@"
