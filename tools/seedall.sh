#!/bin/bash
# seedall.sh [tier]: re-run every stored seeded change against a scratch worktree (tools/seedrun.sh)
cd /verif
for d in seeded/*/; do
  id=$(basename $d)
  ./tools/seedrun.sh $id ${1:-quick} 2>&1 | tail -1
done
