#!/usr/bin/env python3
"""mkdesign.py: regenerate the machine-derived blocks of DESIGN.md (between
<!-- BEGIN:x --> and <!-- END:x --> markers) from harness/registry.json,
known_findings.json and seeded/*/meta.json, so that the as-built inventory in the
design document cannot drift from what the commands in MANIFEST.json run."""
import json, os, re, glob

V = os.path.dirname(os.path.dirname(os.path.abspath(__file__)))


def esc(s):
    return s.replace('|', '\\|').replace('\n', ' ')


def harness_block():
    reg = json.load(open(os.path.join(V, 'harness', 'registry.json')))
    out = []
    for prop in sorted(reg):
        e = reg[prop]
        out.append('### %s' % prop)
        out.append('')
        out.append('| harness (package) | variant | bounds | quick | thorough |')
        out.append('|---|---|---|---|---|')
        for h in e['harnesses']:
            def tier(t):
                if t.get('skip'):
                    return 'not run'
                s = ', '.join('%s=%s' % kv for kv in sorted((t.get('params') or {}).items()))
                if t.get('deadline_s'):
                    s += (' ; ' if s else '') + 'deadline %ds' % t['deadline_s']
                return s or '(no parameters)'
            flags = [f for f in ('goroutines', 'virtual_time', 'lazy_slices') if h.get(f)]
            name = '`%s` (%s)%s' % (h['func'], h['pkg'], (' [' + ', '.join(flags) + ']') if flags else '')
            out.append('| %s | %s | %s | %s | %s |' % (name, h.get('variant') or '', esc(h['bounds']), esc(tier(h['quick'])), esc(tier(h['thorough']))))
        out.append('')
        for a in e.get('assumptions', []):
            out.append('* assumption / outside the claim: ' + a)
        out.append('')
    return '\n'.join(out)


def findings_block():
    k = json.load(open(os.path.join(V, 'known_findings.json')))
    out = ['Known findings (recorded, not repaired; the check prints `KNOWN-FINDING` and exits 0):', '']
    for f in k['findings']:
        out.append('* `%s` (%s): %s' % (f['id'], f['property'], f['description']))
    out += ['', 'Genuine defects repaired in /repo (one `fix:` commit each; a fixed entry suppresses nothing):', '',
            '| property | commit | what failed |', '|---|---|---|']
    for f in k['fixed']:
        m = re.match(r'fixed: property=(\S+) (\S+) (.*)', f, re.S)
        out.append('| %s | `%s` | %s |' % (m.group(1), m.group(2), esc(m.group(3))))
    out.append('')
    return '\n'.join(out)


def seeded_block():
    out = ['| seed | property | change (from the seeder\'s notes) | quick tier | caught by |', '|---|---|---|---|---|']
    for d in sorted(glob.glob(os.path.join(V, 'seeded', '*'))):
        mp = os.path.join(d, 'meta.json')
        if not os.path.exists(mp):
            continue
        m = json.load(open(mp))
        note = ''
        np_ = os.path.join(d, 'notes.txt')
        if os.path.exists(np_):
            lines = [l.strip() for l in open(np_, errors='replace') if l.strip() and not l.startswith('pkgdir=')]
            if lines:
                note = lines[0]
                if len(note) < 120 and len(lines) > 1 and not lines[1].lower().startswith(('manifest', 'needs', 'demo', 'command', 'confirmed', 'effect')):
                    note += ' ' + lines[1]
        note = re.sub(r'^(Change|Mutation M\d)\s*(\([^)]*\))?\s*:\s*', '', note)
        if len(note) > 330:
            note = note[:327] + '...'
        by = '; '.join((m.get('caught_by') or {}).get('quick', []))
        by = by.replace('assert:', '')
        if m.get('outside_claim'):
            by = 'missed: outside the claim (see meta.json)'
        if m.get('superseded'):
            by = 'no longer a violation on the repaired tree (see meta.json)'
        out.append('| %s | %s | %s | %s | %s |' % (m['seed'], m['breaks_property'], esc(note), m.get('checks', {}).get('quick', '?'), esc(by)))
    out.append('')
    return '\n'.join(out)


def main():
    p = os.path.join(V, 'DESIGN.md')
    s = open(p).read()
    for name, fn in (('asbuilt-harnesses', harness_block), ('findings', findings_block), ('seeded', seeded_block)):
        b, e = '<!-- BEGIN:%s -->' % name, '<!-- END:%s -->' % name
        if b not in s:
            print('marker missing:', name)
            continue
        i, j = s.index(b) + len(b), s.index(e)
        s = s[:i] + '\n' + fn() + '\n' + s[j:]
    open(p, 'w').write(s)


if __name__ == '__main__':
    main()
