#!/usr/bin/env python3
"""Regenerates /verif/MANIFEST.json from tools/claims.json (claimed checks) and properties.jsonl."""
import json, os
V = os.path.dirname(os.path.dirname(os.path.abspath(__file__)))
props = [json.loads(l)['id'] for l in open(os.path.join(V, 'properties.jsonl'))]
claims = json.load(open(os.path.join(V, 'tools', 'claims.json')))
checks = []
for pid in props:
    c = claims.get('checks', {}).get(pid)
    if not c:
        continue
    checks.append({
        "property_id": pid,
        "quick_cmd": f"./bin/vcheck run {pid} --tier quick",
        "thorough_cmd": f"./bin/vcheck run {pid} --tier thorough",
        "evidence_file": f"/verif/evidence/{pid}.json",
        "replay_cmd_template": "./bin/vcheck replay {path}",
        "engine": "symgo",
        "level_claimed": {"category": "model_checking", "text": c["text"], "design_ref": c.get("design_ref", "DESIGN.md §5 " + pid)},
        "level_note": c["note"],
        "technique": c.get("technique", "bounded symbolic execution of the real functions (go/ssa -> SMT-LIB2, z3), counterexamples replayed natively"),
    })
na = []
for pid in props:
    if pid in claims.get('checks', {}):
        continue
    na.append({"property_id": pid, "reason": claims.get('not_applicable', {}).get(pid, "check not built yet (build in progress)")})
m = {
    "version": 1,
    "setup_cmd": "cd /verif/symgo && GOFLAGS=-mod=mod GOPROXY=off GOSUMDB=off GOTOOLCHAIN=local go build -o /verif/bin/vcheck ./cmd/vcheck",
    "hooks": {"guard": "verif", "enable": "no hooks: harnesses are injected with go/packages Overlay (engine) and go test -overlay (native replay); /repo is not modified",
              "baseline_off_cmd": "cd /repo && go test -vet=off -count=1 ./...", "source_commits": claims.get("hook_commits", []), "add_only": True},
    "engines": [{"name": "symgo", "path": "/verif/symgo", "serves_properties": [c["property_id"] for c in checks],
                 "kind_free_text": "symbolic executor over go/ssa of /repo's working tree (rebuilt on every run), SMT-LIB2 to z3 -in, fork-by-replay on 16 workers, native replay of every counterexample via go test -overlay"}],
    "checks": checks,
    "not_applicable": na,
    "notes": claims.get("notes", ""),
}
json.dump(m, open(os.path.join(V, 'MANIFEST.json'), 'w'), indent=1)
print("checks:", [c["property_id"] for c in checks], "n/a:", [n["property_id"] for n in na])
