#!/bin/bash
# runall.sh [tier]: run every claimed check in sequence, print one line per property
TIER=${1:-quick}
cd /verif
for p in $(python3 -c "import json;print(' '.join(c['property_id'] for c in json.load(open('MANIFEST.json'))['checks']))" 2>/dev/null || python3 -c "import json;print(' '.join(sorted(json.load(open('harness/registry.json')))))"); do
  s=$(date +%s)
  ./bin/vcheck run $p --tier $TIER > /tmp/runall_$p.log 2>&1
  rc=$?
  e=$(date +%s)
  echo "$p rc=$rc $((e-s))s $(grep -c 'viol=\[[^]]' /tmp/runall_$p.log) harnesses-with-violations $(grep -h '^KNOWN-FINDING' /tmp/runall_$p.log | cut -c1-60 | tr '\n' ' ')"
done
