#!/bin/bash
# seedtest.sh <seed-id> <property> <src-dir-with-patch+demo> <demo-pkg-dir-relative-to-repo> [tier]
# Confirms a seeded mutation in a scratch worktree (build, existing tests pass, demo fails with /
# passes without), stores it under /verif/seeded/<seed-id>/, then runs the property's check
# against a scratch worktree with the patch applied (tools/seedrun.sh).
set -u
export GOFLAGS=-mod=mod GOPROXY=off GOSUMDB=off GOTOOLCHAIN=local
ID=$1; PROP=$2; SRC=$3; DEMODIR=$4; TIER=${5:-quick}
SV=/tmp/sv_$ID
OUT=/verif/seeded/$ID
mkdir -p $OUT
cp $SRC/patch.diff $OUT/patch.diff
cp $SRC/demo_test.go $OUT/demo_test.go
[ -f $SRC/notes.txt ] && cp $SRC/notes.txt $OUT/notes.txt
git -C /repo worktree remove --force $SV 2>/dev/null
git -C /repo worktree add -q --detach $SV HEAD || exit 2
cd $SV
R_APPLY=fail; R_BUILD=fail; R_TESTS=fail; R_DEMO_MUT=unknown; R_DEMO_CLEAN=unknown
if git apply $OUT/patch.diff; then R_APPLY=ok; fi
if go build ./... 2>/dev/null; then R_BUILD=ok; fi
if go test -vet=off -count=1 ./... >/tmp/sv_$ID.tests 2>&1; then R_TESTS=pass; fi
cp $OUT/demo_test.go $SV/$DEMODIR/zz_demo_test.go
if go test -vet=off -count=1 ./$DEMODIR >/tmp/sv_$ID.demo1 2>&1; then R_DEMO_MUT=pass; else R_DEMO_MUT=fail; fi
git checkout -q -- . 
if go test -vet=off -count=1 ./$DEMODIR >/tmp/sv_$ID.demo2 2>&1; then R_DEMO_CLEAN=pass; else R_DEMO_CLEAN=fail; fi
cd /verif
git -C /repo worktree remove --force $SV
# the check itself runs against a scratch worktree carrying the mutation (tools/seedrun.sh:
# VERIF_REPO / VERIF_OUT), so /repo and the committed evidence are never touched
DET=pending
python3 - "$ID" "$PROP" "$DEMODIR" "$R_APPLY" "$R_BUILD" "$R_TESTS" "$R_DEMO_MUT" "$R_DEMO_CLEAN" "$TIER" "$DET" <<'PY'
import json,sys,os
id,prop,demodir,a,b,t,dm,dc,tier,det=sys.argv[1:]
p='/verif/seeded/%s/meta.json'%id
m=json.load(open(p)) if os.path.exists(p) else {}
m.update({"seed":id,"breaks_property":prop,"demo_package_dir":demodir,
 "confirmed":{"patch_applies":a,"builds":b,"existing_tests":t,"demo_with_mutation":dm,"demo_on_clean_tree":dc},
 "what_i_ran":["git worktree add; git apply patch.diff; go build ./...; go test -vet=off -count=1 ./... ; copy demo_test.go into %s; go test ./%s (with mutation, then after git checkout -- .)"%(demodir,demodir),"tools/seedrun.sh: scratch worktree of /repo HEAD + patch.diff; VERIF_REPO=<worktree> ./bin/vcheck run %s --tier %s (round 1 seeds were also run with the patch applied to /repo itself and reverted)"%(prop,tier)]})
m.setdefault("checks",{})[tier]=det
json.dump(m,open(p,'w'),indent=1)
PY
echo "$ID prop=$PROP apply=$R_APPLY build=$R_BUILD tests=$R_TESTS demo_with_mutation=$R_DEMO_MUT demo_clean=$R_DEMO_CLEAN"
/verif/tools/seedrun.sh $ID $TIER
