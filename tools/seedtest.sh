#!/bin/bash
# seedtest.sh <seed-id> <property> <src-dir-with-patch+demo> <demo-pkg-dir-relative-to-repo> [tier]
# Confirms a seeded mutation in a scratch worktree (build, existing tests pass, demo fails with /
# passes without), stores it under /verif/seeded/<seed-id>/, then runs the property's check
# against /repo with the patch applied and reverts.
set -u
export GOFLAGS=-mod=mod GOPROXY=off GOSUMDB=off GOTOOLCHAIN=local
ID=$1; PROP=$2; SRC=$3; DEMODIR=$4; TIER=${5:-quick}
SV=/tmp/sv_$ID
OUT=/verif/seeded/$ID
mkdir -p $OUT
cp $SRC/patch.diff $OUT/patch.diff
cp $SRC/demo_test.go $OUT/demo_test.go
[ -f $SRC/notes.txt ] && cp $SRC/notes.txt $OUT/notes.txt
git -C /repo worktree remove --force $SV 2>/dev/null
git -C /repo worktree add -q --detach $SV HEAD || exit 2
cd $SV
R_APPLY=fail; R_BUILD=fail; R_TESTS=fail; R_DEMO_MUT=unknown; R_DEMO_CLEAN=unknown
if git apply $OUT/patch.diff; then R_APPLY=ok; fi
if go build ./... 2>/dev/null; then R_BUILD=ok; fi
if go test -vet=off -count=1 ./... >/tmp/sv_$ID.tests 2>&1; then R_TESTS=pass; fi
cp $OUT/demo_test.go $SV/$DEMODIR/zz_demo_test.go
if go test -vet=off -count=1 ./$DEMODIR >/tmp/sv_$ID.demo1 2>&1; then R_DEMO_MUT=pass; else R_DEMO_MUT=fail; fi
git checkout -q -- . 
if go test -vet=off -count=1 ./$DEMODIR >/tmp/sv_$ID.demo2 2>&1; then R_DEMO_CLEAN=pass; else R_DEMO_CLEAN=fail; fi
cd /verif
git -C /repo worktree remove --force $SV
# run the check against /repo with the mutation (always reverted, also when interrupted)
trap 'git -C /repo checkout -- .' EXIT INT TERM
git -C /repo apply $OUT/patch.diff
timeout 900 ./bin/vcheck run $PROP --tier $TIER > /tmp/sv_$ID.check 2>&1
RC=$?
git -C /repo checkout -- .
DET=missed; [ $RC -eq 1 ] && grep -q "^VIOLATION property=$PROP" /tmp/sv_$ID.check && DET=detected
[ $RC -eq 2 ] && DET="check-error"
echo "$ID prop=$PROP apply=$R_APPLY build=$R_BUILD tests=$R_TESTS demo_with_mutation=$R_DEMO_MUT demo_clean=$R_DEMO_CLEAN check($TIER)=$DET rc=$RC"
grep -h "viol=\[[^]]" /tmp/sv_$ID.check | cut -c1-260 | head -3
python3 - "$ID" "$PROP" "$DEMODIR" "$R_APPLY" "$R_BUILD" "$R_TESTS" "$R_DEMO_MUT" "$R_DEMO_CLEAN" "$TIER" "$DET" <<'PY'
import json,sys,os
id,prop,demodir,a,b,t,dm,dc,tier,det=sys.argv[1:]
p='/verif/seeded/%s/meta.json'%id
m=json.load(open(p)) if os.path.exists(p) else {}
m.update({"seed":id,"breaks_property":prop,"demo_package_dir":demodir,
 "confirmed":{"patch_applies":a,"builds":b,"existing_tests":t,"demo_with_mutation":dm,"demo_on_clean_tree":dc},
 "what_i_ran":["git worktree add; git apply patch.diff; go build ./...; go test -vet=off -count=1 ./... ; copy demo_test.go into %s; go test ./%s (with mutation, then after git checkout -- .)"%(demodir,demodir),"git -C /repo apply patch.diff; ./bin/vcheck run %s --tier %s; git -C /repo checkout -- ."%(prop,tier)]})
m.setdefault("checks",{})[tier]=det
json.dump(m,open(p,'w'),indent=1)
PY
