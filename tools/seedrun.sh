#!/bin/bash
# seedrun.sh <seed-id> [tier]  -- re-run the property's check against a scratch worktree of
# /repo with the stored seeded mutation applied (never touches /repo or the committed
# evidence: VERIF_REPO / VERIF_OUT point into /tmp), record the verdict and the harness /
# assertion that caught it in seeded/<id>/meta.json, remove the worktree.
set -u
export GOFLAGS=-mod=mod GOPROXY=off GOSUMDB=off GOTOOLCHAIN=local
ID=$1; TIER=${2:-quick}
D=/verif/seeded/$ID
PROP=$(python3 -c "import json;print(json.load(open('$D/meta.json'))['breaks_property'])")
WT=/tmp/sr_$ID; OUT=/tmp/sr_$ID.out
git -C /repo worktree remove --force $WT 2>/dev/null; rm -rf $OUT; mkdir -p $OUT
git -C /repo worktree add -q --detach $WT HEAD || exit 2
trap 'git -C /repo worktree remove --force $WT 2>/dev/null; rm -rf $OUT' EXIT
git -C $WT apply $D/patch.diff || { echo "$ID patch does not apply"; exit 2; }
VERIF_REPO=$WT VERIF_OUT=$OUT timeout 1500 /verif/bin/vcheck run $PROP --tier $TIER > $OUT/log 2>&1
RC=$?
DET=missed; [ $RC -eq 1 ] && grep -q "^VIOLATION property=$PROP" $OUT/log && DET=detected
[ $RC -eq 2 ] && DET="check-error"; [ $RC -eq 124 ] && DET="timeout"
python3 - "$ID" "$TIER" "$DET" "$OUT/log" <<'PY'
import json,sys,re
id,tier,det,log=sys.argv[1:]
p='/verif/seeded/%s/meta.json'%id
m=json.load(open(p))
m.setdefault("checks",{})[tier]=det
by=[]
for l in open(log,errors='replace'):
    mm=re.match(r'(\w+): paths=.* viol=\[([^\]]+)\] known=',l)
    if mm:
        names=sorted(set(n for n,k in re.findall(r'((?:assert|panic|nonterm|deadlock|oblige)[^|]*)\|(\S*) x\d+',mm.group(2)) if not k))
        if names: by.append(mm.group(1)+": "+", ".join(names[:4]))
m.setdefault("caught_by",{})[tier]=by
json.dump(m,open(p,'w'),indent=1)
print(id,tier,det,'; '.join(by)[:300])
PY
