#!/bin/bash
# seedin.sh <prop> <offset>: take /tmp/seedout/<prop>/m1,m2 and register them as <prop>-m<offset+1>,<offset+2>
P=$1; OFF=${2:-2}
for n in 1 2; do
  SRC=/tmp/seedout/$P/m$n
  [ -f $SRC/patch.diff ] || { echo "$P m$n: no patch"; continue; }
  PKG=$(grep -m1 '^pkgdir=' $SRC/notes.txt | cut -d= -f2 | tr -d ' \r')
  [ -z "$PKG" ] && PKG=.
  /verif/tools/seedtest.sh $P-m$((OFF+n)) $P $SRC $PKG 2>&1 | tail -2
done
git -C /repo status --short
