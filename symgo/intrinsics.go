package symgo

import (
	"fmt"
	"go/token"
	"go/types"
	"math"
	"strings"
	"unicode/utf8"

	"golang.org/x/tools/go/ssa"
)

type intrinsic func(in *Interp, fn *ssa.Function, args []Value, site ssa.CallInstruction) Value

const harnessPkg = "git.sr.ht/~rockorager/vaxis/zzverif"
const repoMod = "git.sr.ht/~rockorager/vaxis"

type timerRec struct {
	f       Value // callback closure (AfterFunc) or nil
	ch      *Chan
	pending bool
	cell    *Value
	at      int64 // virtual deadline (ns): arming time + duration
}

func (in *Interp) lookupIntrinsic(fn *ssa.Function) intrinsic {
	if it, ok := in.fnIntr[fn]; ok {
		return it
	}
	if in.fnIntrNo[fn] {
		return nil
	}
	name := fn.String()
	if o := fn.Origin(); o != nil {
		name = o.String()
	}
	it := intrinsicTable[name]
	if it == nil && fn.Pkg != nil {
		pp := fn.Pkg.Pkg.Path()
		if pp == repoMod+"/log" || pp == "log" {
			it = intrNoop
		}
		if pp == "runtime" || pp == "runtime/debug" || pp == "os/signal" {
			it = intrNoop
		}
	}
	if it == nil && fn.Pkg == nil && fn.Origin() == nil {
		// wrappers/thunks/bound methods: synthetic, interpret body
	}
	if it != nil {
		in.fnIntr[fn] = it
	} else {
		in.fnIntrNo[fn] = true
	}
	return it
}

func intrNoop(in *Interp, fn *ssa.Function, args []Value, site ssa.CallInstruction) Value {
	return zeroResults(fn)
}

func (in *Interp) initAllowed(p *ssa.Package) bool {
	path := p.Pkg.Path()
	if strings.HasPrefix(path, repoMod) {
		return path != repoMod+"/log"
	}
	switch path {
	case "io", "bufio", "bytes", "strings", "strconv", "unicode", "unicode/utf8", "unicode/utf16",
		"sort", "math", "math/bits", "image", "image/color", "image/draw", "slices", "maps", "cmp",
		"github.com/rivo/uniseg", "github.com/mattn/go-runewidth",
		"golang.org/x/exp/slices", "golang.org/x/exp/constraints", "encoding/hex", "encoding/base64",
		"container/list", "io/fs", "path", "golang.org/x/image/draw", "golang.org/x/image/math/f64",
		"encoding/binary", "container/heap", "context", "iter", "unique", "hash", "hash/crc32", "hash/adler32":
		return true
	}
	return false
}

func (in *Interp) foreignGlobal(g *ssa.Global) (Value, bool) {
	switch g.String() {
	case "os.Stdout", "os.Stderr", "os.Stdin":
		p := new(Value)
		*p = zero(g.Type().(*types.Pointer).Elem().(*types.Pointer).Elem())
		return p, true
	case "os.Args":
		return Slice(nil), true
	case "internal/bytealg.MaxLen":
		return uint64(0), true
	case "io.EOF":
	}
	return nil, false
}

func hv(v Value) Value { return v }

func argStr(v Value) string {
	s, ok := v.(string)
	if !ok {
		engineErr("intrinsic needs a concrete string, got %T", v)
	}
	return s
}

func (in *Interp) ifaceOf(v Value) Iface { return v.(Iface) }

// invoke calls a method by name on an interface value.
func (in *Interp) invoke(recv Iface, name string, args ...Value) Value {
	if recv.T == nil {
		in.runtimePanic("invalid memory address or nil pointer dereference (nil interface)")
	}
	m := in.findMethod(recv.T, name)
	if m == nil {
		engineErr("invoke: no method %s on %s", name, recv.T)
	}
	return in.callFn(m, append([]Value{recv.V}, args...), nil, nil)
}

func bytesToSlice(b []Value) Slice {
	s := make(Slice, len(b))
	copy(s, b)
	return s
}

var intrinsicTable map[string]intrinsic

func init() {
	intrinsicTable = map[string]intrinsic{
		// ------------------------------------------------------------ harness API
		harnessPkg + ".Int": func(in *Interp, fn *ssa.Function, a []Value, _ ssa.CallInstruction) Value {
			return in.newInput(argStr(a[0]), 64)
		},
		harnessPkg + ".Int64": func(in *Interp, fn *ssa.Function, a []Value, _ ssa.CallInstruction) Value {
			return in.newInput(argStr(a[0]), 64)
		},
		harnessPkg + ".Uint64": func(in *Interp, fn *ssa.Function, a []Value, _ ssa.CallInstruction) Value {
			return in.newInput(argStr(a[0]), 64)
		},
		harnessPkg + ".Uint32": func(in *Interp, fn *ssa.Function, a []Value, _ ssa.CallInstruction) Value {
			return in.newInput(argStr(a[0]), 32)
		},
		harnessPkg + ".Rune": func(in *Interp, fn *ssa.Function, a []Value, _ ssa.CallInstruction) Value {
			return in.newInput(argStr(a[0]), 32)
		},
		harnessPkg + ".Int32": func(in *Interp, fn *ssa.Function, a []Value, _ ssa.CallInstruction) Value {
			return in.newInput(argStr(a[0]), 32)
		},
		harnessPkg + ".Uint16": func(in *Interp, fn *ssa.Function, a []Value, _ ssa.CallInstruction) Value {
			return in.newInput(argStr(a[0]), 16)
		},
		harnessPkg + ".Uint8": func(in *Interp, fn *ssa.Function, a []Value, _ ssa.CallInstruction) Value {
			return in.newInput(argStr(a[0]), 8)
		},
		harnessPkg + ".Byte": func(in *Interp, fn *ssa.Function, a []Value, _ ssa.CallInstruction) Value {
			return in.newInput(argStr(a[0]), 8)
		},
		harnessPkg + ".IntByte": func(in *Interp, fn *ssa.Function, a []Value, _ ssa.CallInstruction) Value {
			// a byte whose solver variable is a mathematical integer in [0,255] (for harnesses
			// whose arithmetic is real/integer rather than bit-vector)
			v := in.newInput(argStr(a[0]), SortInt)
			in.assume(in.tt.And(in.tt.IBin(OpILe, in.tt.IConst(0), v), in.tt.IBin(OpILe, v, in.tt.IConst(255))))
			return in.tt.Un(OpInt2BV, 8, v)
		},
		harnessPkg + ".Bool": func(in *Interp, fn *ssa.Function, a []Value, _ ssa.CallInstruction) Value {
			return in.newInput(argStr(a[0]), SortBool)
		},
		harnessPkg + ".Bytes": func(in *Interp, fn *ssa.Function, a []Value, _ ssa.CallInstruction) Value {
			n := int(a[1].(uint64))
			s := make(Slice, n)
			for i := range s {
				s[i] = in.newInput(fmt.Sprintf("%s[%d]", argStr(a[0]), i), 8)
			}
			return s
		},
		harnessPkg + ".String": func(in *Interp, fn *ssa.Function, a []Value, _ ssa.CallInstruction) Value {
			n := int(a[1].(uint64))
			s := make([]Value, n)
			for i := range s {
				s[i] = in.newInput(fmt.Sprintf("%s[%d]", argStr(a[0]), i), 8)
			}
			return mkStr(s)
		},
		harnessPkg + ".Choose": func(in *Interp, fn *ssa.Function, a []Value, _ ssa.CallInstruction) Value {
			n := a[1].(uint64)
			t := in.newInput(argStr(a[0]), 64)
			in.assume(in.tt.Cmp(OpULt, t, in.tt.Const(64, n)))
			return in.concretize(t)
		},
		harnessPkg + ".Concrete": func(in *Interp, fn *ssa.Function, a []Value, _ ssa.CallInstruction) Value {
			// case split: one path per feasible value
			return in.concInt(a[0])
		},
		harnessPkg + ".Param": func(in *Interp, fn *ssa.Function, a []Value, _ ssa.CallInstruction) Value {
			v, ok := in.ex.cfg.Params[argStr(a[0])]
			if !ok {
				engineErr("harness parameter %q not set in registry", argStr(a[0]))
			}
			return uint64(v)
		},
		harnessPkg + ".Assume": func(in *Interp, fn *ssa.Function, a []Value, _ ssa.CallInstruction) Value {
			in.assume(in.boolTerm(a[0]))
			return nil
		},
		harnessPkg + ".Assert": func(in *Interp, fn *ssa.Function, a []Value, _ ssa.CallInstruction) Value {
			in.oblige(in.boolTerm(a[0]), "assert:"+argStr(a[1]))
			return nil
		},
		harnessPkg + ".Known": func(in *Interp, fn *ssa.Function, a []Value, _ ssa.CallInstruction) Value {
			in.known = append(in.known, knownRegion{argStr(a[0]), in.boolTerm(a[1])})
			return nil
		},
		harnessPkg + ".Reach": func(in *Interp, fn *ssa.Function, a []Value, _ ssa.CallInstruction) Value {
			in.reached[argStr(a[0])] = true
			return nil
		},
		harnessPkg + ".Observe": func(in *Interp, fn *ssa.Function, a []Value, _ ssa.CallInstruction) Value {
			in.observes = append(in.observes, observed{argStr(a[0]), a[1].(Iface)})
			return nil
		},
		harnessPkg + ".Terminates": func(in *Interp, fn *ssa.Function, a []Value, _ ssa.CallInstruction) Value {
			in.termBudget = int(a[0].(uint64))
			in.termBase = in.backEdges
			return nil
		},
		harnessPkg + ".FuncName": func(in *Interp, fn *ssa.Function, a []Value, _ ssa.CallInstruction) Value {
			c, _ := a[0].(Iface).V.(*Closure)
			if c == nil {
				return ""
			}
			return closureName(c)
		},
		harnessPkg + ".FileLog": func(in *Interp, fn *ssa.Function, a []Value, _ ssa.CallInstruction) Value {
			p := a[0].(*Value)
			if l, ok := in.files[p]; ok {
				return bytesToSlice(*l)
			}
			return Slice(nil)
		},
		harnessPkg + ".NewFile": func(in *Interp, fn *ssa.Function, a []Value, _ ssa.CallInstruction) Value {
			p := new(Value)
			*p = zero(fn.Signature.Results().At(0).Type().(*types.Pointer).Elem())
			in.files[p] = &[]Value{}
			return p
		},
		harnessPkg + ".PendingTimers": func(in *Interp, fn *ssa.Function, a []Value, _ ssa.CallInstruction) Value {
			n := 0
			for _, t := range in.timers {
				if t.pending {
					n++
				}
			}
			return uint64(n)
		},
		harnessPkg + ".FireTimer": func(in *Interp, fn *ssa.Function, a []Value, _ ssa.CallInstruction) Value {
			k := int(a[0].(uint64))
			for _, t := range in.timers {
				if !t.pending {
					continue
				}
				if k == 0 {
					t.pending = false
					if t.f != nil {
						in.callValue(t.f, nil, nil)
					}
					return nil
				}
				k--
			}
			return nil
		},
		harnessPkg + ".LetTimePass": func(in *Interp, fn *ssa.Function, a []Value, _ ssa.CallInstruction) Value {
			// every armed timer fires, in deadline order, until none is pending
			for n := 0; n < 64; n++ {
				if !in.fireEarliest(false) {
					break
				}
			}
			return nil
		},
		// signals: Notify / Stop are recorded; DeliverSignal hands the signal to every channel
		// registered for it (non-blocking, as the runtime does)
		"os/signal.Notify": func(in *Interp, fn *ssa.Function, a []Value, _ ssa.CallInstruction) Value {
			c, _ := a[0].(*Chan)
			if c == nil {
				in.runtimePanic("os/signal: Notify using nil channel")
			}
			r := sigReg{ch: c}
			if sl, ok := a[1].(Slice); ok {
				for _, e := range sl {
					if f, ok := e.(Iface); ok {
						if n, ok := f.V.(uint64); ok {
							r.sigs = append(r.sigs, n)
						}
					}
				}
			}
			in.sigRegs = append(in.sigRegs, r)
			return nil
		},
		"os/signal.Stop": func(in *Interp, fn *ssa.Function, a []Value, _ ssa.CallInstruction) Value {
			c, _ := a[0].(*Chan)
			var keep []sigReg
			for _, r := range in.sigRegs {
				if r.ch != c {
					keep = append(keep, r)
				}
			}
			in.sigRegs = keep
			return nil
		},
		harnessPkg + ".DeliverSignal": func(in *Interp, fn *ssa.Function, a []Value, _ ssa.CallInstruction) Value {
			n := in.concInt(a[0])
			sigT := in.signalType()
			for _, r := range in.sigRegs {
				match := len(r.sigs) == 0
				for _, s := range r.sigs {
					match = match || s == uint64(n)
				}
				if match && len(r.ch.buf) < r.ch.cap {
					r.ch.buf = append(r.ch.buf, Iface{T: sigT, V: uint64(n)})
				}
			}
			return nil
		},
		harnessPkg + ".Setenv": func(in *Interp, fn *ssa.Function, a []Value, _ ssa.CallInstruction) Value {
			in.env[argStr(a[0])] = argStr(a[1])
			return nil
		},
		harnessPkg + ".Symbolic": func(in *Interp, fn *ssa.Function, a []Value, _ ssa.CallInstruction) Value { return true },

		// ------------------------------------------------------------ fmt
		"fmt.Sprintf": func(in *Interp, fn *ssa.Function, a []Value, _ ssa.CallInstruction) Value {
			return in.sprintf(a[0], a[1].(Slice))
		},
		"fmt.Sprint": func(in *Interp, fn *ssa.Function, a []Value, _ ssa.CallInstruction) Value {
			var out Value = ""
			for _, x := range a[0].(Slice) {
				out = strConcat(out, in.fmtArg('v', "", x.(Iface)))
			}
			return out
		},
		"fmt.Fprintf": func(in *Interp, fn *ssa.Function, a []Value, _ ssa.CallInstruction) Value {
			s := in.sprintf(a[1], a[2].(Slice))
			r := in.invoke(a[0].(Iface), "Write", bytesToSlice(strBytes(s)))
			return r
		},
		"fmt.Fprint": func(in *Interp, fn *ssa.Function, a []Value, _ ssa.CallInstruction) Value {
			var out Value = ""
			for _, x := range a[1].(Slice) {
				out = strConcat(out, in.fmtArg('v', "", x.(Iface)))
			}
			return in.invoke(a[0].(Iface), "Write", bytesToSlice(strBytes(out)))
		},
		"fmt.Errorf": func(in *Interp, fn *ssa.Function, a []Value, _ ssa.CallInstruction) Value {
			var msg Value
			func() {
				defer func() {
					if r := recover(); r != nil {
						if pe, ok := r.(pathEnd); ok && pe.kind == "unsupported" {
							msg = a[0]
							return
						}
						panic(r)
					}
				}()
				msg = in.sprintf(a[0], a[1].(Slice))
			}()
			return in.newError(msg)
		},
		"fmt.Println": intrNoop, "fmt.Printf": intrNoop, "fmt.Print": intrNoop, "fmt.Fprintln": intrNoop,
		"errors.Is": func(in *Interp, fn *ssa.Function, a []Value, _ ssa.CallInstruction) Value {
			return in.equal(a[0], a[1], nil)
		},

		// ------------------------------------------------------------ sync
		// mutexes: lock state is tracked per mutex (writer held / reader count). Under the one
		// cooperative schedule there is no contention to explore, but a goroutine that locks a
		// mutex it already holds (or that nobody will ever release) blocks forever: reported
		// as a deadlock, as the Go runtime does
		"(*sync.Mutex).Lock": func(in *Interp, fn *ssa.Function, a []Value, _ ssa.CallInstruction) Value {
			in.mutexLock(a[0], true)
			return nil
		},
		"(*sync.Mutex).Unlock": func(in *Interp, fn *ssa.Function, a []Value, _ ssa.CallInstruction) Value {
			in.mutexUnlock(a[0], true)
			return nil
		},
		"(*sync.Mutex).TryLock": func(in *Interp, fn *ssa.Function, a []Value, _ ssa.CallInstruction) Value { return in.mutexTry(a[0]) },
		"(*sync.RWMutex).Lock": func(in *Interp, fn *ssa.Function, a []Value, _ ssa.CallInstruction) Value {
			in.mutexLock(a[0], true)
			return nil
		},
		"(*sync.RWMutex).Unlock": func(in *Interp, fn *ssa.Function, a []Value, _ ssa.CallInstruction) Value {
			in.mutexUnlock(a[0], true)
			return nil
		},
		"(*sync.RWMutex).RLock": func(in *Interp, fn *ssa.Function, a []Value, _ ssa.CallInstruction) Value {
			in.mutexLock(a[0], false)
			return nil
		},
		"(*sync.RWMutex).RUnlock": func(in *Interp, fn *ssa.Function, a []Value, _ ssa.CallInstruction) Value {
			in.mutexUnlock(a[0], false)
			return nil
		},
		"(*sync.WaitGroup).Add": intrNoop, "(*sync.WaitGroup).Done": intrNoop, "(*sync.WaitGroup).Wait": intrNoop,
		"(*sync.Once).Do": func(in *Interp, fn *ssa.Function, a []Value, _ ssa.CallInstruction) Value {
			p := a[0].(*Value)
			if in.onceDone[p] {
				return nil
			}
			in.onceDone[p] = true
			in.callValue(a[1], nil, nil)
			return nil
		},
		"(*sync.Pool).Get": func(in *Interp, fn *ssa.Function, a []Value, _ ssa.CallInstruction) Value {
			p := a[0].(*Value)
			st := in.pools[p]
			if len(st) > 0 {
				v := st[len(st)-1]
				in.pools[p] = st[:len(st)-1]
				return v
			}
			// field New
			pst := fn.Signature.Recv().Type().(*types.Pointer).Elem().Underlying().(*types.Struct)
			for i := 0; i < pst.NumFields(); i++ {
				if pst.Field(i).Name() == "New" {
					nf := (*p).(Struct)[i]
					if c, ok := nf.(*Closure); ok && c != nil {
						return in.callValue(c, nil, nil)
					}
				}
			}
			return Iface{}
		},
		"(*sync.Pool).Put": func(in *Interp, fn *ssa.Function, a []Value, _ ssa.CallInstruction) Value {
			p := a[0].(*Value)
			in.pools[p] = append(in.pools[p], a[1])
			return nil
		},

		// ------------------------------------------------------------ time
		"time.Now": intrNoop,
		// time.Since / time.Until run for real on top of the stubbed clock (Now is the zero
		// Time), so that a deadline d in the future gives a positive duration and
		// context.WithTimeout arms its timer instead of being born expired
		"time.Sleep": intrNoop,
		// (time.Time arithmetic - Add, Sub, After, Before, IsZero - is executed for real)
		"(time.Duration).String": func(in *Interp, fn *ssa.Function, a []Value, _ ssa.CallInstruction) Value { return "0s" },
		"time.AfterFunc": func(in *Interp, fn *ssa.Function, a []Value, _ ssa.CallInstruction) Value {
			p := new(Value)
			*p = zero(fn.Signature.Results().At(0).Type().(*types.Pointer).Elem())
			in.timers = append(in.timers, &timerRec{f: a[1], pending: true, cell: p, at: in.vnow + int64(in.concInt(a[0]))})
			return p
		},
		"time.NewTimer": func(in *Interp, fn *ssa.Function, a []Value, _ ssa.CallInstruction) Value {
			p := new(Value)
			tt := fn.Signature.Results().At(0).Type().(*types.Pointer).Elem()
			*p = zero(tt)
			in.chanSeq++
			ch := &Chan{cap: 1, id: in.chanSeq}
			st := tt.Underlying().(*types.Struct)
			for i := 0; i < st.NumFields(); i++ {
				if st.Field(i).Name() == "C" {
					(*p).(Struct)[i] = ch
				}
			}
			in.timers = append(in.timers, &timerRec{ch: ch, pending: true, cell: p, at: in.vnow + int64(in.concInt(a[0]))})
			return p
		},
		"time.After": func(in *Interp, fn *ssa.Function, a []Value, _ ssa.CallInstruction) Value {
			in.chanSeq++
			ch := &Chan{cap: 1, id: in.chanSeq}
			in.timers = append(in.timers, &timerRec{ch: ch, pending: true, at: in.vnow + int64(in.concInt(a[0]))})
			return ch
		},
		"(*time.Timer).Stop": func(in *Interp, fn *ssa.Function, a []Value, _ ssa.CallInstruction) Value {
			p, _ := a[0].(*Value)
			if p == nil {
				in.runtimePanic("invalid memory address or nil pointer dereference ((*time.Timer).Stop)")
			}
			for _, t := range in.timers {
				if t.cell == p {
					was := t.pending
					t.pending = false
					return was
				}
			}
			return false
		},
		"(*time.Timer).Reset": func(in *Interp, fn *ssa.Function, a []Value, _ ssa.CallInstruction) Value {
			p, _ := a[0].(*Value)
			if p == nil {
				in.runtimePanic("invalid memory address or nil pointer dereference ((*time.Timer).Reset)")
			}
			for _, t := range in.timers {
				if t.cell == p {
					was := t.pending
					t.pending = true
					t.at = in.vnow + int64(in.concInt(a[1]))
					return was
				}
			}
			return false
		},

		// ------------------------------------------------------------ os
		"os.Getenv": func(in *Interp, fn *ssa.Function, a []Value, _ ssa.CallInstruction) Value {
			return in.env[argStr(a[0])]
		},
		"os.LookupEnv": func(in *Interp, fn *ssa.Function, a []Value, _ ssa.CallInstruction) Value {
			v, ok := in.env[argStr(a[0])]
			return Tuple{v, ok}
		},
		"(*os.File).Write": func(in *Interp, fn *ssa.Function, a []Value, _ ssa.CallInstruction) Value {
			return in.fileWrite(a[0], a[1].(Slice))
		},
		"(*os.File).WriteString": func(in *Interp, fn *ssa.Function, a []Value, _ ssa.CallInstruction) Value {
			return in.fileWrite(a[0], strBytes(a[1]))
		},
		"(*os.File).Close": intrNoop,
		"(*os.File).Fd":    intrNoop,

		// ------------------------------------------------------------ strings / bytes internals
		"(*strings.Builder).copyCheck": intrNoop,
		"(*strings.Builder).String": func(in *Interp, fn *ssa.Function, a []Value, _ ssa.CallInstruction) Value {
			p := a[0].(*Value)
			st := fn.Signature.Recv().Type().(*types.Pointer).Elem().Underlying().(*types.Struct)
			for i := 0; i < st.NumFields(); i++ {
				if st.Field(i).Name() == "buf" {
					return mkStr((*p).(Struct)[i].(Slice))
				}
			}
			engineErr("Builder.buf")
			return nil
		},
		"internal/bytealg.MakeNoZero": func(in *Interp, fn *ssa.Function, a []Value, _ ssa.CallInstruction) Value {
			n := int(in.concInt(a[0]))
			s := make(Slice, n)
			for i := range s {
				s[i] = uint64(0)
			}
			return s
		},
		"internal/bytealg.IndexByteString": func(in *Interp, fn *ssa.Function, a []Value, _ ssa.CallInstruction) Value {
			return in.indexByte(strBytes(a[0]), a[1])
		},
		"internal/bytealg.IndexByte": func(in *Interp, fn *ssa.Function, a []Value, _ ssa.CallInstruction) Value {
			return in.indexByte(a[0].(Slice), a[1])
		},
		"internal/bytealg.CountString": func(in *Interp, fn *ssa.Function, a []Value, _ ssa.CallInstruction) Value {
			return in.countByte(strBytes(a[0]), a[1])
		},
		"internal/bytealg.Count": func(in *Interp, fn *ssa.Function, a []Value, _ ssa.CallInstruction) Value {
			return in.countByte(a[0].(Slice), a[1])
		},
		"internal/bytealg.Equal": func(in *Interp, fn *ssa.Function, a []Value, _ ssa.CallInstruction) Value {
			return in.strEq(mkStr(a[0].(Slice)), mkStr(a[1].(Slice)))
		},
		"bytes.Equal": func(in *Interp, fn *ssa.Function, a []Value, _ ssa.CallInstruction) Value {
			return in.strEq(mkStr(a[0].(Slice)), mkStr(a[1].(Slice)))
		},
		"strings.Index": func(in *Interp, fn *ssa.Function, a []Value, _ ssa.CallInstruction) Value {
			return in.indexStr(strBytes(a[0]), strBytes(a[1]))
		},
		"bytes.Index": func(in *Interp, fn *ssa.Function, a []Value, _ ssa.CallInstruction) Value {
			return in.indexStr(a[0].(Slice), a[1].(Slice))
		},
		"strings.Clone": func(in *Interp, fn *ssa.Function, a []Value, _ ssa.CallInstruction) Value { return a[0] },
		"strconv.Itoa": func(in *Interp, fn *ssa.Function, a []Value, _ ssa.CallInstruction) Value {
			return in.fmtInt(a[0], 64, true)
		},
		"strconv.FormatInt": func(in *Interp, fn *ssa.Function, a []Value, _ ssa.CallInstruction) Value {
			if b, ok := a[1].(uint64); !ok || b != 10 {
				in.unsupported("FormatInt base")
			}
			return in.fmtInt(a[0], 64, true)
		},
		// the window-size ioctl on the fake console's descriptor fails (as it does on a
		// descriptor that is not a terminal); Vaxis then asks the console object
		"golang.org/x/sys/unix.IoctlGetWinsize": func(in *Interp, fn *ssa.Function, a []Value, _ ssa.CallInstruction) Value {
			return Tuple{zero(fn.Signature.Results().At(0).Type()), in.newError("inappropriate ioctl for device")}
		},
		"github.com/creack/pty.Setsize":                  intrNoop,
		"(golang.org/x/image/draw.Kernel).Scale":         intrNoop,
		"(*golang.org/x/image/draw.Kernel).Scale":        intrNoop,
		"(golang.org/x/image/draw.nnInterpolator).Scale": intrNoop,
		"image.NewRGBA": func(in *Interp, fn *ssa.Function, a []Value, _ ssa.CallInstruction) Value {
			// allocation only: Pix is not materialised (pixel values are outside the claim)
			rt := fn.Signature.Results().At(0).Type().(*types.Pointer).Elem()
			p := new(Value)
			st := zero(rt).(Struct)
			ust := rt.Underlying().(*types.Struct)
			rect := a[0].(Struct)
			for i := 0; i < ust.NumFields(); i++ {
				switch ust.Field(i).Name() {
				case "Rect":
					st[i] = copyVal(rect)
				case "Stride":
					min, max := rect[0].(Struct), rect[1].(Struct)
					dx := in.binop(token.SUB, types.Typ[types.Int], max[0], min[0])
					st[i] = in.binop(token.MUL, types.Typ[types.Int], dx, uint64(4))
				case "Pix":
					// small images of concrete size get their (zeroed) pixels, so that code
					// reading them (quantiser, encoders) runs; larger or symbolic ones do not
					min, max := rect[0].(Struct), rect[1].(Struct)
					x0, ok0 := min[0].(uint64)
					y0, ok1 := min[1].(uint64)
					x1, ok2 := max[0].(uint64)
					y1, ok3 := max[1].(uint64)
					if ok0 && ok1 && ok2 && ok3 && int64(x1) > int64(x0) && int64(y1) > int64(y0) && (x1-x0)*(y1-y0) <= 4096 {
						n := int((x1 - x0) * (y1 - y0) * 4)
						pix := make(Slice, n)
						for k := range pix {
							pix[k] = uint64(0)
						}
						st[i] = pix
					}
				}
			}
			*p = st
			return p
		},
		"unicode/utf8.DecodeRune": func(in *Interp, fn *ssa.Function, a []Value, _ ssa.CallInstruction) Value {
			p := a[0].(Slice)
			if len(p) == 0 {
				return Tuple{uint64(utf8.RuneError), uint64(0)}
			}
			r, n := in.decodeRune(p, 0)
			return Tuple{r, uint64(n)}
		},
		"unicode/utf8.DecodeRuneInString": func(in *Interp, fn *ssa.Function, a []Value, _ ssa.CallInstruction) Value {
			p := strBytes(a[0])
			if len(p) == 0 {
				return Tuple{uint64(utf8.RuneError), uint64(0)}
			}
			r, n := in.decodeRune(p, 0)
			return Tuple{r, uint64(n)}
		},
		"unicode/utf8.FullRune": func(in *Interp, fn *ssa.Function, a []Value, _ ssa.CallInstruction) Value {
			return in.fullRune(a[0].(Slice))
		},
		"unicode/utf8.FullRuneInString": func(in *Interp, fn *ssa.Function, a []Value, _ ssa.CallInstruction) Value {
			return in.fullRune(strBytes(a[0]))
		},
		"sort.Slice":       intrSortSlice,
		"sort.SliceStable": intrSortSlice,

		// ------------------------------------------------------------ math (concrete only)
		"math.Float64bits": func(in *Interp, fn *ssa.Function, a []Value, _ ssa.CallInstruction) Value {
			return math.Float64bits(concF(in, a[0]))
		},
		"math.Float64frombits": func(in *Interp, fn *ssa.Function, a []Value, _ ssa.CallInstruction) Value {
			return math.Float64frombits(in.concInt(a[0]))
		},
		"math.Float32bits": func(in *Interp, fn *ssa.Function, a []Value, _ ssa.CallInstruction) Value {
			return uint64(math.Float32bits(float32(concF(in, a[0]))))
		},
		"math.Floor": func(in *Interp, fn *ssa.Function, a []Value, _ ssa.CallInstruction) Value {
			return math.Floor(concF(in, a[0]))
		},
		"math.Ceil": func(in *Interp, fn *ssa.Function, a []Value, _ ssa.CallInstruction) Value {
			return math.Ceil(concF(in, a[0]))
		},
		"math.Round": func(in *Interp, fn *ssa.Function, a []Value, _ ssa.CallInstruction) Value {
			return math.Round(concF(in, a[0]))
		},
		"math.Trunc": func(in *Interp, fn *ssa.Function, a []Value, _ ssa.CallInstruction) Value {
			return math.Trunc(concF(in, a[0]))
		},
		"math.Sqrt": func(in *Interp, fn *ssa.Function, a []Value, _ ssa.CallInstruction) Value {
			return math.Sqrt(concF(in, a[0]))
		},
		"math.Abs": func(in *Interp, fn *ssa.Function, a []Value, _ ssa.CallInstruction) Value {
			if t, ok := a[0].(*Term); ok {
				z := in.tt.RConst(ratZero)
				return in.tt.Ite(in.tt.RBin(OpRLt, t, z), in.tt.RBin(OpRSub, z, t), t)
			}
			return math.Abs(concF(in, a[0]))
		},
		"math.Pow": func(in *Interp, fn *ssa.Function, a []Value, _ ssa.CallInstruction) Value {
			return math.Pow(concF(in, a[0]), concF(in, a[1]))
		},
		"math.Inf": func(in *Interp, fn *ssa.Function, a []Value, _ ssa.CallInstruction) Value {
			return math.Inf(int(sext(in.concInt(a[0]), 64)))
		},
		"math.IsNaN": func(in *Interp, fn *ssa.Function, a []Value, _ ssa.CallInstruction) Value {
			if _, ok := a[0].(*Term); ok {
				return false
			}
			return math.IsNaN(concF(in, a[0]))
		},
		"math.IsInf": func(in *Interp, fn *ssa.Function, a []Value, _ ssa.CallInstruction) Value {
			if _, ok := a[0].(*Term); ok {
				return false
			}
			return math.IsInf(concF(in, a[0]), int(sext(in.concInt(a[1]), 64)))
		},
		"math.Max": func(in *Interp, fn *ssa.Function, a []Value, _ ssa.CallInstruction) Value {
			return math.Max(concF(in, a[0]), concF(in, a[1]))
		},
		"math.Min": func(in *Interp, fn *ssa.Function, a []Value, _ ssa.CallInstruction) Value {
			return math.Min(concF(in, a[0]), concF(in, a[1]))
		},

		// ------------------------------------------------------------ atomic functions
		"sync/atomic.AddInt32": intrAtomicAdd, "sync/atomic.AddInt64": intrAtomicAdd,
		"sync/atomic.AddUint32": intrAtomicAdd, "sync/atomic.AddUint64": intrAtomicAdd,
		"sync/atomic.LoadInt32": intrAtomicLoad, "sync/atomic.LoadInt64": intrAtomicLoad,
		"sync/atomic.LoadUint32": intrAtomicLoad, "sync/atomic.LoadUint64": intrAtomicLoad,
		"sync/atomic.StoreInt32": intrAtomicStore, "sync/atomic.StoreInt64": intrAtomicStore,
		"sync/atomic.StoreUint32": intrAtomicStore, "sync/atomic.StoreUint64": intrAtomicStore,
		"sync/atomic.CompareAndSwapInt32": intrAtomicCAS, "sync/atomic.CompareAndSwapUint32": intrAtomicCAS,
		"sync/atomic.CompareAndSwapInt64": intrAtomicCAS, "sync/atomic.CompareAndSwapUint64": intrAtomicCAS,
	}
	// atomic.Int32 etc: typed wrappers. Their methods call the functions above in source form,
	// except Bool/Pointer/Value, which use unsafe; model them on field "v".
	for _, t := range []string{"Int32", "Int64", "Uint32", "Uint64", "Uintptr"} {
		intrinsicTable["(*sync/atomic."+t+").Load"] = intrAtomicFieldLoad
		intrinsicTable["(*sync/atomic."+t+").Store"] = intrAtomicFieldStore
		intrinsicTable["(*sync/atomic."+t+").Add"] = intrAtomicFieldAdd
		intrinsicTable["(*sync/atomic."+t+").Swap"] = intrAtomicFieldSwap
		intrinsicTable["(*sync/atomic."+t+").CompareAndSwap"] = intrAtomicFieldCAS
	}
	intrinsicTable["(*sync/atomic.Bool).Load"] = func(in *Interp, fn *ssa.Function, a []Value, _ ssa.CallInstruction) Value {
		v := *atomicField(in, fn, a[0])
		switch x := v.(type) {
		case uint64:
			return x != 0
		case *Term:
			return in.simpBool(in.tt.Not(in.tt.Cmp(OpEq, x, in.tt.Const(x.W, 0))))
		}
		return false
	}
	intrinsicTable["(*sync/atomic.Bool).Store"] = func(in *Interp, fn *ssa.Function, a []Value, _ ssa.CallInstruction) Value {
		p := atomicField(in, fn, a[0])
		switch x := a[1].(type) {
		case bool:
			if x {
				*p = uint64(1)
			} else {
				*p = uint64(0)
			}
		case *Term:
			*p = in.tt.Ite(x, in.tt.Const(32, 1), in.tt.Const(32, 0))
		}
		return nil
	}
	intrinsicTable["(*sync/atomic.Value).Load"] = func(in *Interp, fn *ssa.Function, a []Value, _ ssa.CallInstruction) Value {
		return (*a[0].(*Value)).(Struct)[0]
	}
	intrinsicTable["(*sync/atomic.Value).Store"] = func(in *Interp, fn *ssa.Function, a []Value, _ ssa.CallInstruction) Value {
		(*a[0].(*Value)).(Struct)[0] = a[1]
		return nil
	}
}

func intrTrue(in *Interp, fn *ssa.Function, args []Value, site ssa.CallInstruction) Value {
	return true
}

func concF(in *Interp, v Value) float64 {
	f, ok := v.(float64)
	if !ok {
		in.unsupported("math function on symbolic float")
	}
	return f
}

func closureName(c *Closure) string {
	n := c.Fn.String()
	// bound method closures: name of the bound method
	if c.Fn.Synthetic != "" && strings.HasSuffix(n, "$bound") {
		n = strings.TrimSuffix(n, "$bound")
	}
	return n
}

func atomicField(in *Interp, fn *ssa.Function, recv Value) *Value {
	p := recv.(*Value)
	if p == nil {
		in.runtimePanic("invalid memory address or nil pointer dereference (atomic)")
	}
	st := fn.Signature.Recv().Type().(*types.Pointer).Elem().Underlying().(*types.Struct)
	for i := 0; i < st.NumFields(); i++ {
		if st.Field(i).Name() == "v" {
			return &(*p).(Struct)[i]
		}
	}
	engineErr("atomic field v")
	return nil
}

func atomicElemType(fn *ssa.Function) types.Type {
	if r := fn.Signature.Recv(); r != nil {
		st := r.Type().(*types.Pointer).Elem().Underlying().(*types.Struct)
		for i := 0; i < st.NumFields(); i++ {
			if st.Field(i).Name() == "v" {
				return st.Field(i).Type()
			}
		}
	}
	return fn.Signature.Params().At(0).Type().(*types.Pointer).Elem()
}

func intrAtomicFieldLoad(in *Interp, fn *ssa.Function, a []Value, _ ssa.CallInstruction) Value {
	return *atomicField(in, fn, a[0])
}
func intrAtomicFieldStore(in *Interp, fn *ssa.Function, a []Value, _ ssa.CallInstruction) Value {
	*atomicField(in, fn, a[0]) = a[1]
	return nil
}
func intrAtomicFieldAdd(in *Interp, fn *ssa.Function, a []Value, _ ssa.CallInstruction) Value {
	p := atomicField(in, fn, a[0])
	*p = in.binop(tokenADD, atomicElemType(fn), *p, a[1])
	return *p
}
func intrAtomicFieldSwap(in *Interp, fn *ssa.Function, a []Value, _ ssa.CallInstruction) Value {
	p := atomicField(in, fn, a[0])
	old := *p
	*p = a[1]
	return old
}
func intrAtomicFieldCAS(in *Interp, fn *ssa.Function, a []Value, _ ssa.CallInstruction) Value {
	p := atomicField(in, fn, a[0])
	if in.truth(in.equal(*p, a[1], nil)) {
		*p = a[2]
		return true
	}
	return false
}
func intrAtomicAdd(in *Interp, fn *ssa.Function, a []Value, _ ssa.CallInstruction) Value {
	p := a[0].(*Value)
	*p = in.binop(tokenADD, atomicElemType(fn), *p, a[1])
	return *p
}
func intrAtomicLoad(in *Interp, fn *ssa.Function, a []Value, _ ssa.CallInstruction) Value {
	return *a[0].(*Value)
}
func intrAtomicStore(in *Interp, fn *ssa.Function, a []Value, _ ssa.CallInstruction) Value {
	*a[0].(*Value) = a[1]
	return nil
}
func intrAtomicCAS(in *Interp, fn *ssa.Function, a []Value, _ ssa.CallInstruction) Value {
	p := a[0].(*Value)
	if in.truth(in.equal(*p, a[1], nil)) {
		*p = a[2]
		return true
	}
	return false
}

func intrSortSlice(in *Interp, fn *ssa.Function, a []Value, _ ssa.CallInstruction) Value {
	s := a[0].(Iface).V.(Slice)
	less := a[1]
	// insertion sort (stable)
	for i := 1; i < len(s); i++ {
		for j := i; j > 0; j-- {
			if !in.truth(in.callValue(less, []Value{uint64(j), uint64(j - 1)}, nil)) {
				break
			}
			s[j], s[j-1] = s[j-1], s[j]
		}
	}
	return nil
}

// mutexState is the lock state of one sync.Mutex / sync.RWMutex.
type mutexState struct {
	writer  bool
	readers int
}

func (in *Interp) mutexOf(v Value) *mutexState {
	p, _ := v.(*Value)
	if p == nil {
		in.runtimePanic("invalid memory address or nil pointer dereference (nil mutex)")
	}
	if in.mutexes == nil {
		in.mutexes = map[*Value]*mutexState{}
	}
	m := in.mutexes[p]
	if m == nil {
		m = &mutexState{}
		in.mutexes[p] = m
	}
	return m
}

func (in *Interp) mutexLock(v Value, write bool) {
	m := in.mutexOf(v)
	free := func() bool { return !m.writer && (!write || m.readers == 0) }
	if !free() {
		if !in.block(free) {
			panic(pathEnd{"deadlock", "mutex locked again while held and never released (blocked forever) at " + in.stackString()})
		}
	}
	if write {
		m.writer = true
	} else {
		m.readers++
	}
}

func (in *Interp) mutexUnlock(v Value, write bool) {
	m := in.mutexOf(v)
	if write {
		if !m.writer {
			in.runtimePanic("sync: unlock of unlocked mutex")
		}
		m.writer = false
		return
	}
	if m.readers == 0 {
		in.runtimePanic("sync: RUnlock of unlocked RWMutex")
	}
	m.readers--
}

func (in *Interp) mutexTry(v Value) Value {
	m := in.mutexOf(v)
	if m.writer || m.readers > 0 {
		return false
	}
	m.writer = true
	return true
}

// signalType is the dynamic type of delivered signals (syscall.Signal).
func (in *Interp) signalType() types.Type {
	if p := in.prog.ImportedPackage("syscall"); p != nil {
		if t := p.Type("Signal"); t != nil {
			return t.Type()
		}
	}
	engineErr("syscall.Signal not loaded")
	return nil
}

func (in *Interp) newError(msg Value) Value {
	ep := in.prog.ImportedPackage("errors")
	if ep == nil {
		engineErr("errors package not loaded")
	}
	return in.callFn(ep.Func("New"), []Value{msg}, nil, nil)
}

func (in *Interp) fileWrite(f Value, b []Value) Value {
	p, _ := f.(*Value)
	if p == nil {
		return Tuple{uint64(0), in.newError("invalid argument (nil *os.File)")}
	}
	l, ok := in.files[p]
	if !ok {
		l = &[]Value{}
		in.files[p] = l
	}
	*l = append(*l, b...)
	return Tuple{uint64(len(b)), Iface{}}
}

func (in *Interp) indexByte(b []Value, c Value) Value {
	for i, x := range b {
		if in.truth(in.equal(x, c, nil)) {
			return uint64(i)
		}
	}
	return mask(64) // -1
}

func (in *Interp) countByte(b []Value, c Value) Value {
	n := uint64(0)
	for _, x := range b {
		if in.truth(in.equal(x, c, nil)) {
			n++
		}
	}
	return n
}

func (in *Interp) indexStr(s, sub []Value) Value {
	for i := 0; i+len(sub) <= len(s); i++ {
		if in.truth(in.strEq(mkStr(s[i:i+len(sub)]), mkStr(sub))) {
			return uint64(i)
		}
	}
	return mask(64)
}

// ---------------------------------------------------------------- formatting

// fmtInt renders an integer (concrete or symbolic) in decimal; forks on sign and digit count.
func (in *Interp) fmtInt(v Value, w uint8, signed bool) Value {
	switch x := v.(type) {
	case uint64:
		if signed {
			return fmt.Sprint(sext(x, w))
		}
		return fmt.Sprint(x)
	case *Term:
		tt := in.tt
		prefix := ""
		t := x
		if signed {
			if in.decide(tt.Cmp(OpSLt, t, tt.Const(w, 0))) {
				prefix = "-"
				t = tt.Neg(t)
			}
		}
		// digit count
		p := uint64(10)
		nd := 1
		for {
			if nd >= 20 || (w < 64 && p > mask(w)) {
				break
			}
			if in.decide(tt.Cmp(OpULt, t, tt.Const(w, p))) {
				break
			}
			nd++
			if nd < 20 {
				p *= 10
			}
		}
		// narrow arithmetic when possible
		nw := w
		for _, cw := range []uint8{8, 16, 32} {
			if cw < w && nd < 20 && pow10(nd) <= mask(cw) {
				nw = cw
				break
			}
		}
		tn := tt.Extract(t, 0, nw)
		if nw == w {
			tn = t
		}
		out := make([]Value, 0, nd+1)
		for _, c := range prefix {
			out = append(out, uint64(c))
		}
		for k := nd - 1; k >= 0; k-- {
			d := tn
			if k > 0 {
				d = tt.Bin(OpUDiv, d, tt.Const(nw, pow10(k)))
			}
			if k < nd-1 {
				d = tt.Bin(OpURem, d, tt.Const(nw, 10))
			}
			b := tt.Bin(OpAdd, tt.Extract(d, 0, 8), tt.Const(8, '0'))
			if nw < 8 {
				b = tt.Bin(OpAdd, tt.ZExt(d, 8), tt.Const(8, '0'))
			}
			if b.IsConst() {
				out = append(out, b.K)
			} else {
				out = append(out, b)
			}
		}
		return mkStr(out)
	}
	engineErr("fmtInt %T", v)
	return nil
}

func pow10(n int) uint64 {
	p := uint64(1)
	for i := 0; i < n; i++ {
		p *= 10
	}
	return p
}

const hexLower = "0123456789abcdef"
const hexUpper = "0123456789ABCDEF"

func (in *Interp) hexOfBytes(b []Value, upper bool) Value {
	digits := hexLower
	if upper {
		digits = hexUpper
	}
	out := make([]Value, 0, 2*len(b))
	for _, x := range b {
		switch c := x.(type) {
		case uint64:
			out = append(out, uint64(digits[c>>4]), uint64(digits[c&15]))
		case *Term:
			for _, sh := range []uint8{4, 0} {
				nib := in.tt.Extract(c, sh, 4)
				n8 := in.tt.ZExt(nib, 8)
				alpha := uint64('a' - 10)
				if upper {
					alpha = 'A' - 10
				}
				ch := in.tt.Ite(in.tt.Cmp(OpULt, n8, in.tt.Const(8, 10)), in.tt.Bin(OpAdd, n8, in.tt.Const(8, '0')), in.tt.Bin(OpAdd, n8, in.tt.Const(8, alpha)))
				out = append(out, ch)
			}
		}
	}
	return mkStr(out)
}

// fmtArg formats one operand for a verb.
func (in *Interp) fmtArg(verb byte, flags string, a Iface) Value {
	if a.T == nil {
		return "<nil>"
	}
	// error / Stringer for %s %v
	if verb == 's' || verb == 'v' || verb == 'q' {
		if _, isBasic := a.T.Underlying().(*types.Basic); !isBasic || a.T != a.T.Underlying() {
			if m := in.findMethod(a.T, "Error"); m != nil {
				if p, ok := a.V.(*Value); ok && p == nil {
					return "<nil>"
				}
				return in.callFn(m, []Value{a.V}, nil, nil)
			}
			if m := in.findMethod(a.T, "String"); m != nil && m.Signature.Params().Len() == 0 && m.Signature.Results().Len() == 1 {
				if p, ok := a.V.(*Value); ok && p == nil {
					return "<nil>"
				}
				return in.callFn(m, []Value{a.V}, nil, nil)
			}
		}
	}
	if w, signed, ok := intInfo(a.T); ok {
		switch verb {
		case 'd', 'v':
			s := in.fmtInt(a.V, w, signed)
			return in.pad(s, flags)
		case 'c':
			switch r := a.V.(type) {
			case uint64:
				rv := rune(sext(r, w))
				if !signed {
					rv = rune(r)
				}
				if r > 0x10FFFF {
					rv = utf8.RuneError
				}
				return string(rv)
			case *Term:
				var t32 *Term
				if w >= 32 {
					if !in.decide(in.tt.Cmp(OpULe, r, in.tt.Const(w, 0x10FFFF))) {
						return string(utf8.RuneError)
					}
					t32 = in.tt.Extract(r, 0, 32)
				} else {
					t32 = in.tt.ZExt(r, 32)
				}
				return in.runeToStr(t32)
			}
		case 'x', 'X':
			c := in.concInt(a.V)
			var s string
			if signed {
				s = fmt.Sprintf("%"+flags+string(verb), sext(c, w))
			} else {
				s = fmt.Sprintf("%"+flags+string(verb), c)
			}
			return s
		case 'q', 'U', 'b', 'o':
			c := in.concInt(a.V)
			return fmt.Sprintf("%"+flags+string(verb), rune(c))
		}
	}
	if isString(a.T) {
		switch verb {
		case 's', 'v':
			return in.pad(a.V, flags)
		case 'x':
			return in.hexOfBytes(strBytes(a.V), false)
		case 'X':
			return in.hexOfBytes(strBytes(a.V), true)
		case 'q':
			if s, ok := a.V.(string); ok {
				return fmt.Sprintf("%q", s)
			}
			return strConcat(strConcat("\"", a.V), "\"")
		}
	}
	if isBool(a.T) {
		if in.truth(a.V) {
			return "true"
		}
		return "false"
	}
	if isFloat(a.T) {
		if f, ok := a.V.(float64); ok {
			return fmt.Sprintf("%"+flags+string(verb), f)
		}
	}
	if sl, ok := a.T.Underlying().(*types.Slice); ok {
		if b, ok := sl.Elem().Underlying().(*types.Basic); ok && b.Kind() == types.Uint8 {
			switch verb {
			case 's':
				return mkStr(a.V.(Slice))
			case 'x':
				return in.hexOfBytes(a.V.(Slice), false)
			case 'X':
				return in.hexOfBytes(a.V.(Slice), true)
			}
		}
	}
	if verb == 'T' {
		return a.T.String()
	}
	in.unsupported("fmt verb %%%s%c for %s", flags, verb, a.T)
	return nil
}

func (in *Interp) pad(s Value, flags string) Value {
	if flags == "" {
		return s
	}
	// supports width with optional leading 0 or '-'
	left := false
	zero := false
	f := flags
	if strings.HasPrefix(f, "-") {
		left = true
		f = f[1:]
	}
	if strings.HasPrefix(f, "0") {
		zero = true
		f = f[1:]
	}
	w := 0
	for _, c := range f {
		if c < '0' || c > '9' {
			in.unsupported("fmt flags %q", flags)
		}
		w = w*10 + int(c-'0')
	}
	n := strLen(s) // byte length; adequate for ASCII
	for n < w {
		switch {
		case left:
			s = strConcat(s, " ")
		case zero:
			s = strConcat("0", s)
		default:
			s = strConcat(" ", s)
		}
		n++
	}
	return s
}

func (in *Interp) sprintf(format Value, args Slice) Value {
	f, ok := format.(string)
	if !ok {
		in.unsupported("symbolic format string")
	}
	var out Value = ""
	lit := 0
	ai := 0
	for i := 0; i < len(f); i++ {
		if f[i] != '%' {
			continue
		}
		out = strConcat(out, f[lit:i])
		i++
		if i >= len(f) {
			out = strConcat(out, "%!(NOVERB)")
			lit = i
			break
		}
		st := i
		for i < len(f) && (f[i] == '-' || f[i] == '+' || f[i] == '#' || f[i] == ' ' || f[i] == '.' || f[i] >= '0' && f[i] <= '9') {
			i++
		}
		flags := f[st:i]
		if i >= len(f) {
			lit = i
			break
		}
		verb := f[i]
		lit = i + 1
		if verb == '%' {
			out = strConcat(out, "%")
			continue
		}
		if ai >= len(args) {
			out = strConcat(out, "%!"+string(verb)+"(MISSING)")
			continue
		}
		out = strConcat(out, in.fmtArg(verb, flags, args[ai].(Iface)))
		ai++
	}
	if lit < len(f) {
		out = strConcat(out, f[lit:])
	}
	if ai < len(args) {
		out = strConcat(out, "%!(EXTRA)")
	}
	return out
}

// fullRune mirrors unicode/utf8.FullRune: does p begin with a full encoding of a rune
// (an invalid encoding counts as a full rune of width 1)?
func (in *Interp) fullRune(p []Value) Value {
	n := len(p)
	if n == 0 {
		return false
	}
	conc := true
	buf := make([]byte, 0, 4)
	for i := 0; i < n && i < 4; i++ {
		c, ok := p[i].(uint64)
		if !ok {
			conc = false
			break
		}
		buf = append(buf, byte(c))
	}
	if conc {
		return utf8.FullRune(buf)
	}
	tt := in.tt
	c8 := func(v uint64) *Term { return tt.Const(8, v) }
	bt := func(k int) *Term { return in.toTerm(p[k], 8) }
	between := func(t *Term, lo, hi *Term) *Term { return tt.And(tt.Cmp(OpULe, lo, t), tt.Cmp(OpULe, t, hi)) }
	b0 := bt(0)
	if in.decide(tt.Cmp(OpULt, b0, c8(0x80))) {
		return true
	}
	if in.decide(tt.Or(tt.Cmp(OpULt, b0, c8(0xC2)), tt.Cmp(OpULt, c8(0xF4), b0))) {
		return true
	}
	need := 4
	if in.decide(tt.Cmp(OpULt, b0, c8(0xE0))) {
		need = 2
	} else if in.decide(tt.Cmp(OpULt, b0, c8(0xF0))) {
		need = 3
	}
	if n >= need {
		return true
	}
	// short: a bad continuation byte makes it an (invalid) full rune
	if n > 1 {
		lo := tt.Ite(tt.Cmp(OpEq, b0, c8(0xE0)), c8(0xA0), tt.Ite(tt.Cmp(OpEq, b0, c8(0xF0)), c8(0x90), c8(0x80)))
		hi := tt.Ite(tt.Cmp(OpEq, b0, c8(0xED)), c8(0x9F), tt.Ite(tt.Cmp(OpEq, b0, c8(0xF4)), c8(0x8F), c8(0xBF)))
		if !in.decide(between(bt(1), lo, hi)) {
			return true
		}
	}
	if n > 2 {
		if !in.decide(between(bt(2), c8(0x80), c8(0xBF))) {
			return true
		}
	}
	return false
}
