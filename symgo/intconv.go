package symgo

import "math/big"

// bvToInt translates a bit-vector term to an Int-sorted term denoting its (signed or
// unsigned) value, structurally where ranges prove that no wrap-around can occur
// (zext(a) - zext(b) becomes a_int - b_int), and by bv2int on the whole term otherwise.
// It returns the term and an interval containing its value.
func (in *Interp) bvToInt(t *Term, signed bool) (*Term, *big.Int, *big.Int) {
	w := t.W
	two := func(n uint) *big.Int { return new(big.Int).Lsh(big.NewInt(1), n) }
	var lo, hi *big.Int
	if signed {
		lo = new(big.Int).Neg(two(uint(w) - 1))
		hi = new(big.Int).Sub(two(uint(w)-1), big.NewInt(1))
	} else {
		lo = big.NewInt(0)
		hi = new(big.Int).Sub(two(uint(w)), big.NewInt(1))
	}
	fits := func(a, b *big.Int) bool { return a.Cmp(lo) >= 0 && b.Cmp(hi) <= 0 }
	switch t.Op {
	case OpConst:
		var v *big.Int
		if signed {
			v = big.NewInt(sext(t.K, w))
		} else {
			v = new(big.Int).SetUint64(t.K)
		}
		return in.tt.mk(OpIConst, SortInt, 0, v.String(), nil, nil, nil), v, v
	case OpInt2BV:
		// an input declared as a mathematical integer with range [0, 2^w)
		if t.A[0].Op == OpVar {
			return t.A[0], big.NewInt(0), new(big.Int).Sub(two(uint(w)), big.NewInt(1))
		}
	case OpZExt:
		x, xl, xh := in.bvToInt(t.A[0], false)
		return x, xl, xh
	case OpSExt:
		if signed {
			return in.bvToInt(t.A[0], true)
		}
	case OpAdd, OpSub, OpMul:
		a, al, ah := in.bvToInt(t.A[0], signed)
		b, bl, bh := in.bvToInt(t.A[1], signed)
		var rl, rh *big.Int
		var op Op
		switch t.Op {
		case OpAdd:
			rl, rh, op = new(big.Int).Add(al, bl), new(big.Int).Add(ah, bh), OpIAdd
		case OpSub:
			rl, rh, op = new(big.Int).Sub(al, bh), new(big.Int).Sub(ah, bl), OpISub
		case OpMul:
			c := []*big.Int{new(big.Int).Mul(al, bl), new(big.Int).Mul(al, bh), new(big.Int).Mul(ah, bl), new(big.Int).Mul(ah, bh)}
			rl, rh = c[0], c[0]
			for _, x := range c[1:] {
				if x.Cmp(rl) < 0 {
					rl = x
				}
				if x.Cmp(rh) > 0 {
					rh = x
				}
			}
			op = OpIMul
		}
		if fits(rl, rh) {
			return in.tt.IBin(op, a, b), rl, rh
		}
	case OpIte:
		a, al, ah := in.bvToInt(t.A[1], signed)
		b, bl, bh := in.bvToInt(t.A[2], signed)
		if bl.Cmp(al) < 0 {
			al = bl
		}
		if bh.Cmp(ah) > 0 {
			ah = bh
		}
		return in.tt.mk(OpIte, SortInt, 0, "", t.A[0], a, b), al, ah
	}
	if signed {
		return in.tt.Un(OpSBV2Int, SortInt, t), lo, hi
	}
	ub := new(big.Int).SetUint64(ubound(t))
	return in.tt.Un(OpBV2Int, SortInt, t), lo, ub
}
