package symgo

import (
	"sync"
	"unicode"

	"golang.org/x/tools/go/ssa"
)

// Unicode predicates and case mappings on a *symbolic* rune are encoded as balanced
// decision trees over exact range tables. The tables are generated at start-up by running
// the real functions natively over 0..0x10FFFF ("precompute static tables"); outside that
// range the real functions return false / the identity. On concrete runes the real
// function is evaluated natively.

type predTab struct {
	starts []uint32 // segment i = [starts[i], starts[i+1])
	vals   []bool
}

type mapTab struct {
	starts []uint32
	deltas []int32
}

var (
	uniOnce  sync.Once
	uniPreds map[string]*predTab
	uniMaps  map[string]*mapTab
	uniPredF = map[string]func(rune) bool{
		"unicode.IsLetter": unicode.IsLetter, "unicode.IsGraphic": unicode.IsGraphic, "unicode.IsPrint": unicode.IsPrint,
		"unicode.IsLower": unicode.IsLower, "unicode.IsUpper": unicode.IsUpper, "unicode.IsSpace": unicode.IsSpace,
		"unicode.IsNumber": unicode.IsNumber, "unicode.IsDigit": unicode.IsDigit, "unicode.IsControl": unicode.IsControl,
		"unicode.IsPunct": unicode.IsPunct, "unicode.IsSymbol": unicode.IsSymbol, "unicode.IsMark": unicode.IsMark,
		"unicode.IsTitle": unicode.IsTitle,
	}
	uniMapF = map[string]func(rune) rune{
		"unicode.ToUpper": unicode.ToUpper, "unicode.ToLower": unicode.ToLower, "unicode.ToTitle": unicode.ToTitle,
	}
)

func buildUniTabs() {
	uniPreds = map[string]*predTab{}
	uniMaps = map[string]*mapTab{}
	for name, f := range uniPredF {
		t := &predTab{}
		var cur bool
		for r := rune(0); r <= unicode.MaxRune+1; r++ {
			v := false
			if r <= unicode.MaxRune {
				v = f(r)
			}
			if r == 0 || v != cur {
				t.starts = append(t.starts, uint32(r))
				t.vals = append(t.vals, v)
				cur = v
			}
		}
		uniPreds[name] = t
	}
	for name, f := range uniMapF {
		t := &mapTab{}
		var cur int32
		for r := rune(0); r <= unicode.MaxRune+1; r++ {
			d := int32(0)
			if r <= unicode.MaxRune {
				d = f(r) - r
			}
			if r == 0 || d != cur {
				t.starts = append(t.starts, uint32(r))
				t.deltas = append(t.deltas, d)
				cur = d
			}
		}
		uniMaps[name] = t
	}
}

func (in *Interp) predTree(r *Term, t *predTab, lo, hi int) *Term {
	// prune segments beyond the syntactic upper bound of r
	ub := ubound(r)
	for hi > lo && uint64(t.starts[hi]) > ub {
		hi--
	}
	if lo == hi {
		return in.tt.Bool(t.vals[lo])
	}
	mid := (lo + hi + 1) / 2
	return in.tt.Ite(in.tt.Cmp(OpULt, r, in.tt.Const(32, uint64(t.starts[mid]))), in.predTree(r, t, lo, mid-1), in.predTree(r, t, mid, hi))
}

func (in *Interp) mapTree(r *Term, t *mapTab, lo, hi int) *Term {
	ub := ubound(r)
	for hi > lo && uint64(t.starts[hi]) > ub {
		hi--
	}
	if lo == hi {
		return in.tt.Bin(OpAdd, r, in.tt.Const(32, uint64(uint32(t.deltas[lo]))))
	}
	mid := (lo + hi + 1) / 2
	return in.tt.Ite(in.tt.Cmp(OpULt, r, in.tt.Const(32, uint64(t.starts[mid]))), in.mapTree(r, t, lo, mid-1), in.mapTree(r, t, mid, hi))
}

// liftIte applies f to the leaves of an ite-DAG over r (predicates and maps distribute
// over ite); constant leaves are evaluated natively.
func (in *Interp) liftIte(r *Term, memo map[*Term]*Term, leaf func(*Term) *Term) *Term {
	if r.Op != OpIte {
		return leaf(r)
	}
	if v, ok := memo[r]; ok {
		return v
	}
	v := in.tt.Ite(r.A[0], in.liftIte(r.A[1], memo, leaf), in.liftIte(r.A[2], memo, leaf))
	memo[r] = v
	return v
}

func init() {
	for name := range uniPredF {
		name := name
		intrinsicTable[name] = func(in *Interp, fn *ssa.Function, a []Value, _ ssa.CallInstruction) Value {
			switch r := a[0].(type) {
			case uint64:
				return uniPredF[name](rune(int32(uint32(r))))
			case *Term:
				uniOnce.Do(buildUniTabs)
				t := uniPreds[name]
				return in.simpBool(in.liftIte(r, map[*Term]*Term{}, func(l *Term) *Term {
					if l.IsConst() {
						return in.tt.Bool(uniPredF[name](rune(int32(uint32(l.K)))))
					}
					return in.predTree(l, t, 0, len(t.starts)-1)
				}))
			}
			engineErr("unicode predicate on %T", a[0])
			return nil
		}
	}
	for name := range uniMapF {
		name := name
		intrinsicTable[name] = func(in *Interp, fn *ssa.Function, a []Value, _ ssa.CallInstruction) Value {
			switch r := a[0].(type) {
			case uint64:
				return uint64(uint32(uniMapF[name](rune(int32(uint32(r))))))
			case *Term:
				uniOnce.Do(buildUniTabs)
				t := uniMaps[name]
				res := in.liftIte(r, map[*Term]*Term{}, func(l *Term) *Term {
					if l.IsConst() {
						return in.tt.Const(32, uint64(uint32(uniMapF[name](rune(int32(uint32(l.K)))))))
					}
					return in.mapTree(l, t, 0, len(t.starts)-1)
				})
				if res.IsConst() {
					return res.K
				}
				return res
			}
			engineErr("unicode mapping on %T", a[0])
			return nil
		}
	}
}
