// vcheck drives the symgo engine: `vcheck run <property> --tier quick|thorough`,
// `vcheck replay <file>`, `vcheck harness <pkgdir> <func> [k=v ...]` (development).
package main

import (
	"crypto/sha1"
	"encoding/json"
	"flag"
	"fmt"
	"os"
	"path/filepath"
	"runtime/pprof"
	"sort"
	"strconv"
	"strings"
	"sync"
	"time"

	"symgo"
)

var (
	verifDir = envOr("VERIF_DIR", "/verif")
	repoDir  = envOr("VERIF_REPO", "/repo")
	// outDir receives evidence/, replay/ and .work/; it differs from verifDir only when a
	// mutated scratch copy of the repository is being checked (tools/seedrun.sh), so that
	// the committed evidence always describes /repo itself.
	outDir = envOr("VERIF_OUT", verifDir)
)

func envOr(k, d string) string {
	if v := os.Getenv(k); v != "" {
		return v
	}
	return d
}

type TierSpec struct {
	Params    map[string]int `json:"params"`
	Unwind    int            `json:"unwind"`
	MaxPaths  int            `json:"max_paths"`
	DeadlineS int            `json:"deadline_s"`
	MaxSteps  int            `json:"max_steps"`
	Skip      bool           `json:"skip"`
}

type HarnessSpec struct {
	Pkg         string   `json:"pkg"`
	Func        string   `json:"func"`
	Goroutines  bool     `json:"goroutines"`
	VirtualTime bool     `json:"virtual_time"`
	NoMerge     bool     `json:"no_merge"`
	LazySlices  bool     `json:"lazy_slices"`
	Z3TimeoutMs int      `json:"z3_timeout_ms"`
	Quick       TierSpec `json:"quick"`
	Thorough    TierSpec `json:"thorough"`
	Bounds      string   `json:"bounds"`
	Reach       []string `json:"reach"` // labels that must be reached on >=1 completed path
}

type PropSpec struct {
	Harnesses   []HarnessSpec `json:"harnesses"`
	Assumptions []string      `json:"assumptions"`
}

type KnownFinding struct {
	ID          string `json:"id"`
	Property    string `json:"property"`
	Description string `json:"description"`
}

type KnownFile struct {
	Findings []KnownFinding `json:"findings"`
	Fixed    []string       `json:"fixed"`
}

func loadJSON(path string, v interface{}) error {
	b, err := os.ReadFile(path)
	if err != nil {
		return err
	}
	return json.Unmarshal(b, v)
}

func allHarnessPkgDirs() []string {
	var out []string
	root := filepath.Join(verifDir, "harness")
	filepath.Walk(root, func(p string, info os.FileInfo, err error) error {
		if err != nil || !info.IsDir() || p == root {
			return nil
		}
		rel, _ := filepath.Rel(root, p)
		if rel == "zzverif" {
			return filepath.SkipDir
		}
		ents, _ := os.ReadDir(p)
		has := false
		for _, e := range ents {
			if strings.HasSuffix(e.Name(), ".go") {
				has = true
			}
		}
		if has {
			if rel == "root" {
				rel = "."
			}
			out = append(out, rel)
		}
		return nil
	})
	sort.Strings(out)
	return out
}

func main() {
	if len(os.Args) < 2 {
		fmt.Fprintln(os.Stderr, "usage: vcheck run <id> [--tier quick|thorough] | replay <file> | harness <pkgdir> <func> [k=v...]")
		os.Exit(2)
	}
	switch os.Args[1] {
	case "run":
		os.Exit(cmdRun(os.Args[2:]))
	case "replay":
		os.Exit(cmdReplay(os.Args[2:]))
	case "harness":
		os.Exit(cmdHarness(os.Args[2:]))
	}
	fmt.Fprintln(os.Stderr, "unknown command")
	os.Exit(2)
}

type harnessRun struct {
	spec HarnessSpec
	tier TierSpec
	res  *symgo.Result
}

func seed() int64 {
	if s := os.Getenv("VERIF_SEED"); s != "" {
		if v, err := strconv.ParseInt(s, 10, 64); err == nil {
			return v
		}
	}
	return 1
}

func cmdRun(args []string) int {
	fs := flag.NewFlagSet("run", flag.ExitOnError)
	tier := fs.String("tier", envOr("VERIF_TIER", "quick"), "quick|thorough")
	only := fs.String("only", "", "run only this harness func")
	var id string
	if len(args) > 0 && !strings.HasPrefix(args[0], "-") {
		id = args[0]
		args = args[1:]
	}
	fs.Parse(args)
	if id == "" && fs.NArg() > 0 {
		id = fs.Arg(0)
	}
	if *tier != "quick" && *tier != "thorough" {
		*tier = "quick"
	}
	t0 := time.Now()
	reg := map[string]PropSpec{}
	if err := loadJSON(filepath.Join(verifDir, "harness", "registry.json"), &reg); err != nil {
		fmt.Fprintln(os.Stderr, "registry:", err)
		return 2
	}
	ps, ok := reg[id]
	if !ok {
		fmt.Fprintln(os.Stderr, "unknown property", id)
		return 2
	}
	var kf KnownFile
	loadJSON(filepath.Join(verifDir, "known_findings.json"), &kf)
	knownIDs := map[string]bool{}
	knownDesc := map[string]string{}
	for _, f := range kf.Findings {
		if f.Property == id {
			knownIDs[f.ID] = true
			knownDesc[f.ID] = f.Description
		}
	}

	workDir := filepath.Join(outDir, ".work", fmt.Sprintf("%s-%d", id, os.Getpid()))
	os.MkdirAll(workDir, 0o755)
	defer os.RemoveAll(workDir)

	allDirs := allHarnessPkgDirs()
	ov, err := symgo.BuildOverlay(repoDir, filepath.Join(verifDir, "harness"), allDirs)
	if err != nil {
		fmt.Fprintln(os.Stderr, "overlay:", err)
		return 2
	}
	pkgSet := map[string]bool{}
	var runs []*harnessRun
	for _, h := range ps.Harnesses {
		if *only != "" && h.Func != *only {
			continue
		}
		ts := h.Quick
		if *tier == "thorough" {
			ts = h.Thorough
			if ts.Params == nil && ts.Unwind == 0 && ts.DeadlineS == 0 && !ts.Skip {
				ts = h.Quick
			}
		}
		if ts.Skip {
			continue
		}
		pkgSet[h.Pkg] = true
		runs = append(runs, &harnessRun{spec: h, tier: ts})
	}
	var pkgDirs []string
	for d := range pkgSet {
		pkgDirs = append(pkgDirs, d)
	}
	sort.Strings(pkgDirs)
	tLoad := time.Now()
	ld, err := symgo.Load(ov, pkgDirs)
	if err != nil {
		fmt.Fprintln(os.Stderr, "load:", err)
		return 2
	}
	loadS := time.Since(tLoad).Seconds()

	// native build in the background
	nat := &symgo.Native{Ov: ov, WorkDir: workDir}
	bins := map[string]string{}
	binErr := map[string]error{}
	var bwg sync.WaitGroup
	var bmu sync.Mutex
	for _, d := range pkgDirs {
		var funcs []string
		for name := range ld.Pkgs[d].Members {
			if strings.HasPrefix(name, "Verif") {
				if f := ld.Pkgs[d].Func(name); f != nil && f.Signature.Params().Len() == 0 && f.Signature.Results().Len() == 0 {
					funcs = append(funcs, name)
				}
			}
		}
		sort.Strings(funcs)
		bwg.Add(1)
		go func(d string, funcs []string) {
			defer bwg.Done()
			b, err := nat.Build(d, funcs)
			bmu.Lock()
			bins[d], binErr[d] = b, err
			bmu.Unlock()
		}(d, funcs)
	}

	exit := 0
	fatal := ""
	for _, r := range runs {
		pkg := ld.Pkgs[r.spec.Pkg]
		fn := pkg.Func(r.spec.Func)
		if fn == nil {
			fmt.Fprintf(os.Stderr, "harness %s not found in %s\n", r.spec.Func, r.spec.Pkg)
			return 2
		}
		cfg := symgo.Config{Workers: 16, Params: r.tier.Params, Unwind: r.tier.Unwind, MaxPaths: r.tier.MaxPaths,
			MaxSteps: r.tier.MaxSteps, KnownIDs: knownIDs, Goroutines: r.spec.Goroutines, VirtualTime: r.spec.VirtualTime,
			NoMerge: r.spec.NoMerge, LazySlices: r.spec.LazySlices, QueryTimeoutMs: r.spec.Z3TimeoutMs, Seed: seed()}
		if r.tier.DeadlineS > 0 {
			cfg.Deadline = time.Now().Add(time.Duration(r.tier.DeadlineS) * time.Second)
		}
		ex := symgo.NewExplorer(ld.Prog, pkg, fn, cfg)
		r.res = ex.Run()
		if r.res.Fatal != "" {
			fatal = r.spec.Func + ": " + r.res.Fatal
			break
		}
	}
	bwg.Wait()
	if fatal != "" {
		fmt.Fprintln(os.Stderr, "ENGINE-FAILURE:", fatal)
		return 2
	}
	for d, e := range binErr {
		if e != nil {
			fmt.Fprintf(os.Stderr, "native build of %s failed: %v\n", d, e)
			return 2
		}
	}

	// ---- native validation, violation confirmation
	ev := newEvidence(id, *tier)
	replayDir := filepath.Join(outDir, "replay", id)
	knownSeen := map[string]bool{}
	mismatches := 0
	var outLines []string
	for _, r := range runs {
		res := r.res
		bin := bins[r.spec.Pkg]
		hv := harnessEvidence{Harness: r.spec.Func, Pkg: r.spec.Pkg, Bounds: r.spec.Bounds, Params: r.tier.Params,
			Unwind: r.tier.Unwind, Paths: res.Paths, Infeasible: res.Infeasible, Decisions: res.Decisions, Queries: res.Queries,
			Merges: res.Merges, Fallbacks: res.Fallbacks, FallbackDecided: res.FallbackDecided, Steps: res.Steps, Incomplete: res.Incomplete, IncompleteExamples: res.IncompleteEx,
			Truncated: res.Truncated, WallS: res.Wall.Seconds(), AssertSites: res.AssertSites, Reached: res.Reached}
		// vacuity
		if res.Paths == 0 {
			hv.Vacuous = append(hv.Vacuous, "no completed path")
		}
		for _, lbl := range r.spec.Reach {
			if res.Reached[lbl] == 0 {
				hv.Vacuous = append(hv.Vacuous, "label never reached: "+lbl)
			}
		}
		// translator validation on sampled completed paths
		for _, s := range res.Samples {
			if s.Inputs == nil {
				continue
			}
			rc := &symgo.ReplayCase{Property: id, Pkg: r.spec.Pkg, Harness: r.spec.Func, Inputs: s.Inputs, Params: r.tier.Params}
			out := nat.Run(bin, rc, 30*time.Second)
			ev.NativeReplays++
			okk := out.Outcome == "pass" && sameObs(out.Observes, s.Observes)
			// harnesses that run the library's real timers or goroutines natively can be
			// disturbed by a loaded machine: a disagreement counts only if it repeats
			for retry := 0; !okk && retry < 2; retry++ {
				out = nat.Run(bin, rc, 30*time.Second)
				ev.NativeReplays++
				okk = out.Outcome == "pass" && sameObs(out.Observes, s.Observes)
			}
			if !okk {
				mismatches++
				hv.Mismatches = append(hv.Mismatches, fmt.Sprintf("inputs=%v engine=pass obs=%v native=%s %s obs=%v", s.Inputs, s.Observes, out.Outcome, out.Detail, out.Observes))
			}
			if len(ev.Samples) < 6 {
				ev.Samples = append(ev.Samples, map[string]interface{}{"harness": r.spec.Func, "inputs": s.Inputs, "observes": s.Observes, "native": out.Outcome})
			}
		}
		// violations
		for _, v := range res.Violations {
			rc := &symgo.ReplayCase{Property: id, Pkg: r.spec.Pkg, Harness: r.spec.Func, Inputs: v.Inputs, Params: r.tier.Params, Site: v.Site}
			to := 30 * time.Second
			if strings.HasPrefix(v.Site, "nonterm:") || strings.HasPrefix(v.Site, "deadlock:") {
				to = 6 * time.Second
			}
			out := nat.Run(bin, rc, to)
			ev.NativeReplays++
			confirmed := confirms(v.Site, out)
			rc.Expect = out.Outcome
			if !confirmed {
				hv.Unconfirmed = append(hv.Unconfirmed, fmt.Sprintf("%s inputs=%v native=%s %s", v.Site, v.Inputs, out.Outcome, out.Detail))
				continue
			}
			if v.Known != "" {
				if !knownSeen[v.Known] {
					knownSeen[v.Known] = true
					outLines = append(outLines, fmt.Sprintf("KNOWN-FINDING: property=%s %s: %s", id, v.Known, knownDesc[v.Known]))
				}
				hv.KnownSeen = append(hv.KnownSeen, v.Known)
				continue
			}
			os.MkdirAll(replayDir, 0o755)
			b, _ := json.MarshalIndent(rc, "", " ")
			h := sha1.Sum(b)
			path := filepath.Join(replayDir, fmt.Sprintf("%s-%x.json", r.spec.Func, h[:6]))
			os.WriteFile(path, b, 0o644)
			outLines = append(outLines, fmt.Sprintf("VIOLATION property=%s replay=%s", id, path))
			hv.Violations = append(hv.Violations, fmt.Sprintf("%s -> %s %s (%s)", v.Site, out.Outcome, out.Detail, path))
			ev.Violations++
			exit = 1
		}
		for k, n := range res.ViolCount {
			hv.ViolationCounts = append(hv.ViolationCounts, fmt.Sprintf("%s x%d", k, n))
		}
		sort.Strings(hv.ViolationCounts)
		for f := range res.Functions {
			ev.funcs[f] = true
		}
		ev.Solver.Add(res.Solver)
		ev.SolverErrors = append(ev.SolverErrors, res.SolverErrors...)
		ev.Harnesses = append(ev.Harnesses, hv)
		ev.States += res.Paths
		ev.Transitions += res.Decisions
	}
	for _, l := range outLines {
		fmt.Println(l)
	}
	ev.LoadS = loadS
	ev.Assumptions = append(ev.Assumptions, ps.Assumptions...)
	ev.write(time.Since(t0).Seconds())
	// summary to stderr
	for _, h := range ev.Harnesses {
		fmt.Fprintf(os.Stderr, "%s: paths=%d infeasible=%d decisions=%d queries=%d merges=%d incomplete=%v truncated=%v wall=%.1fs viol=%v known=%v unconfirmed=%d vacuous=%v\n",
			h.Harness, h.Paths, h.Infeasible, h.Decisions, h.Queries, h.Merges, h.Incomplete, h.Truncated, h.WallS, h.ViolationCounts, h.KnownSeen, len(h.Unconfirmed), h.Vacuous)
		for _, m := range h.Mismatches {
			fmt.Fprintln(os.Stderr, "  MISMATCH:", m)
		}
		for _, m := range h.Unconfirmed {
			fmt.Fprintln(os.Stderr, "  UNCONFIRMED:", m)
		}
		for _, m := range h.IncompleteExamples {
			fmt.Fprintln(os.Stderr, "  INCOMPLETE:", m)
		}
	}
	if mismatches > 0 {
		fmt.Fprintln(os.Stderr, "ENGINE-FAILURE: translator validation mismatch (engine vs native)")
		return 2
	}
	for _, h := range ev.Harnesses {
		// vacuity is judged only where nothing was found: a harness whose assertion fails on
		// every path legitimately never reaches its end marker
		if len(h.Vacuous) > 0 && len(h.Violations) == 0 && len(h.KnownSeen) == 0 {
			fmt.Fprintln(os.Stderr, "ENGINE-FAILURE: vacuous harness", h.Harness, h.Vacuous)
			return 2
		}
	}
	return exit
}

func sameObs(a, b []string) bool {
	if len(a) != len(b) {
		return false
	}
	for i := range a {
		if a[i] != b[i] {
			return false
		}
	}
	return true
}

func confirms(site string, out symgo.NativeOutcome) bool {
	switch {
	case strings.HasPrefix(site, "assert:"):
		return out.Outcome == site
	case strings.HasPrefix(site, "panic:"):
		// with real goroutines and timers the same defect can surface natively as a failed
		// assertion of the harness instead of the panic the engine's schedule reaches (and
		// vice versa is covered above by exact matching): any native failure on the same
		// inputs confirms that the counterexample is real
		return out.Outcome == "panic" || strings.HasPrefix(out.Outcome, "assert:")
	case strings.HasPrefix(site, "nonterm:"), strings.HasPrefix(site, "deadlock:"):
		return out.Outcome == "timeout" || out.Outcome == "panic" && strings.Contains(out.Output, "deadlock")
	}
	return false
}

// ---------------------------------------------------------------- evidence

type harnessEvidence struct {
	Harness            string         `json:"harness"`
	Pkg                string         `json:"pkg"`
	Bounds             string         `json:"bounds"`
	Params             map[string]int `json:"params,omitempty"`
	Unwind             int            `json:"unwind"`
	Paths              int            `json:"completed_paths"`
	Infeasible         int            `json:"infeasible_paths"`
	Decisions          int            `json:"decisions"`
	Queries            int            `json:"solver_queries"`
	Merges             int            `json:"merged_diamonds"`
	Fallbacks          int            `json:"cvc5_fallback_queries"`
	FallbackDecided    int            `json:"cvc5_fallback_decided"`
	Steps              int64          `json:"ssa_instructions"`
	Incomplete         map[string]int `json:"incomplete_paths"`
	IncompleteExamples []string       `json:"incomplete_examples,omitempty"`
	Truncated          bool           `json:"truncated"`
	WallS              float64        `json:"wall_s"`
	AssertSites        map[string]int `json:"assertions_evaluated"`
	Reached            map[string]int `json:"reach_markers,omitempty"`
	Vacuous            []string       `json:"vacuity_failures,omitempty"`
	Mismatches         []string       `json:"translator_mismatches,omitempty"`
	Unconfirmed        []string       `json:"unconfirmed_counterexamples,omitempty"`
	Violations         []string       `json:"violations,omitempty"`
	ViolationCounts    []string       `json:"violation_counts,omitempty"`
	KnownSeen          []string       `json:"known_findings_seen,omitempty"`
}

type evidence struct {
	id, tier      string
	States        int
	Transitions   int
	NativeReplays int
	Violations    int
	Samples       []interface{}
	Harnesses     []harnessEvidence
	Solver        symgo.SolverStats
	SolverErrors  []string
	LoadS         float64
	Assumptions   []string
	funcs         map[string]bool
}

func newEvidence(id, tier string) *evidence {
	return &evidence{id: id, tier: tier, funcs: map[string]bool{}}
}

func (e *evidence) write(wall float64) {
	var funcs []string
	for f := range e.funcs {
		funcs = append(funcs, f)
	}
	sort.Strings(funcs)
	exhaustive := true
	incomplete := 0
	for _, h := range e.Harnesses {
		if h.Truncated {
			exhaustive = false
		}
		for _, n := range h.Incomplete {
			incomplete += n
		}
	}
	if incomplete > 0 {
		exhaustive = false
	}
	samples := e.Samples
	if len(samples) == 0 {
		samples = []interface{}{map[string]interface{}{"note": "no completed path sampled"}}
	}
	states, trans := e.States, e.Transitions
	cov := map[string]interface{}{
		"states":                        states,
		"transitions":                   trans,
		"traces_validated_against_impl": e.NativeReplays,
		"samples":                       samples,
		"exhaustive":                    exhaustive,
		"explanation": "states = symbolic paths completed (each covers every input satisfying its path condition); transitions = solver-decided branch/obligation decisions; " +
			"traces_validated_against_impl = native replays of solver models (translator validation + counterexample confirmation). " +
			"exhaustive=true means every path within the stated bounds was completed with no unknown/unwind/unsupported/truncated path.",
		"harnesses":            e.Harnesses,
		"functions_encoded":    funcs,
		"queries":              map[string]int{"sat": e.Solver.Sat, "unsat": e.Solver.Unsat, "unknown": e.Solver.Unknown, "errors": e.Solver.Errors},
		"solver_time_s":        e.Solver.Time.Seconds(),
		"load_and_ssa_build_s": e.LoadS,
		"incomplete_paths":     incomplete,
		"solver":               "z3 4.8.12 (z3 -in), SMT-LIB2 bit-vector/Bool/Real terms regenerated from go/ssa of /repo's working tree on this run",
	}
	if len(e.SolverErrors) > 0 {
		cov["solver_errors"] = e.SolverErrors
	}
	base := []string{
		"bounded symbolic execution: claims hold only within the per-harness bounds listed under coverage.harnesses[].bounds",
		"go/ssa (x/tools v0.29.0) semantics as implemented by /verif/symgo; stubs: fmt formatting subset, sync (single goroutine), time (timers never fire unless the harness fires them), vaxis log (no-op), os.File writes logged",
		"z3 4.8.12 soundness; counterexamples are additionally replayed natively before being reported",
	}
	out := map[string]interface{}{
		"property_id": e.id,
		"tier":        e.tier,
		"seed":        seed(),
		"level":       "model_checking",
		"coverage":    cov,
		"assumptions": append(base, e.Assumptions...),
		"wall_s":      wall,
		"violations":  e.Violations,
	}
	b, _ := json.MarshalIndent(out, "", " ")
	os.MkdirAll(filepath.Join(outDir, "evidence"), 0o755)
	os.WriteFile(filepath.Join(outDir, "evidence", e.id+".json"), b, 0o644)
}

// ---------------------------------------------------------------- replay

func cmdReplay(args []string) int {
	if len(args) < 1 {
		fmt.Fprintln(os.Stderr, "usage: vcheck replay <file>")
		return 2
	}
	var rc symgo.ReplayCase
	if err := loadJSON(args[0], &rc); err != nil {
		fmt.Fprintln(os.Stderr, err)
		return 2
	}
	workDir := filepath.Join(outDir, ".work", fmt.Sprintf("replay-%d", os.Getpid()))
	os.MkdirAll(workDir, 0o755)
	defer os.RemoveAll(workDir)
	ov, err := symgo.BuildOverlay(repoDir, filepath.Join(verifDir, "harness"), allHarnessPkgDirs())
	if err != nil {
		fmt.Fprintln(os.Stderr, err)
		return 2
	}
	nat := &symgo.Native{Ov: ov, WorkDir: workDir}
	bin, err := nat.Build(rc.Pkg, []string{rc.Harness})
	if err != nil {
		fmt.Fprintln(os.Stderr, err)
		return 2
	}
	out := nat.Run(bin, &rc, 30*time.Second)
	fmt.Printf("native outcome: %s %s\n", out.Outcome, out.Detail)
	if len(args) > 1 && args[1] == "-v" {
		fmt.Println(out.Output)
	}
	if out.Outcome != "pass" {
		fmt.Printf("VIOLATION property=%s replay=%s\n", rc.Property, args[0])
		return 1
	}
	return 0
}

// ---------------------------------------------------------------- development entry

func cmdHarness(args []string) int {
	if p := os.Getenv("VERIF_PPROF"); p != "" {
		f, _ := os.Create(p)
		pprof.StartCPUProfile(f)
		defer pprof.StopCPUProfile()
	}
	if len(args) < 2 {
		fmt.Fprintln(os.Stderr, "usage: vcheck harness <pkgdir> <func> [param=v ...] [--unwind=n] [--gor] [--maxpaths=n] [--workers=n]")
		return 2
	}
	pkgDir, fname := args[0], args[1]
	params := map[string]int{}
	cfg := symgo.Config{Workers: 16, Seed: seed(), KnownIDs: map[string]bool{}}
	native := false
	for _, a := range args[2:] {
		switch {
		case strings.HasPrefix(a, "--unwind="):
			cfg.Unwind, _ = strconv.Atoi(a[9:])
		case strings.HasPrefix(a, "--maxpaths="):
			cfg.MaxPaths, _ = strconv.Atoi(a[11:])
		case strings.HasPrefix(a, "--workers="):
			cfg.Workers, _ = strconv.Atoi(a[10:])
		case strings.HasPrefix(a, "--known="):
			for _, k := range strings.Split(a[8:], ",") {
				cfg.KnownIDs[k] = true
			}
		case strings.HasPrefix(a, "--deadline="):
			d, _ := strconv.Atoi(a[11:])
			cfg.Deadline = time.Now().Add(time.Duration(d) * time.Second)
		case strings.HasPrefix(a, "--keep="):
			cfg.KeepPerSite, _ = strconv.Atoi(a[7:])
		case a == "--gor":
			cfg.Goroutines = true
		case a == "--vtime":
			cfg.VirtualTime = true
		case strings.HasPrefix(a, "--z3ms="):
			cfg.QueryTimeoutMs, _ = strconv.Atoi(a[7:])
		case a == "--lazy":
			cfg.LazySlices = true
		case a == "--nomerge":
			cfg.NoMerge = true
		case a == "--native":
			native = true
		default:
			kv := strings.SplitN(a, "=", 2)
			if len(kv) == 2 {
				params[kv[0]], _ = strconv.Atoi(kv[1])
			}
		}
	}
	cfg.Params = params
	ov, err := symgo.BuildOverlay(repoDir, filepath.Join(verifDir, "harness"), allHarnessPkgDirs())
	if err != nil {
		fmt.Fprintln(os.Stderr, err)
		return 2
	}
	t0 := time.Now()
	ld, err := symgo.Load(ov, []string{pkgDir})
	if err != nil {
		fmt.Fprintln(os.Stderr, err)
		return 2
	}
	fmt.Fprintf(os.Stderr, "loaded in %.1fs\n", time.Since(t0).Seconds())
	pkg := ld.Pkgs[pkgDir]
	fn := pkg.Func(fname)
	if fn == nil {
		fmt.Fprintln(os.Stderr, "no such harness")
		return 2
	}
	ex := symgo.NewExplorer(ld.Prog, pkg, fn, cfg)
	res := ex.Run()
	fmt.Printf("paths=%d infeasible=%d decisions=%d queries=%d merges=%d steps=%d wall=%.1fs solver=%.1fs sat=%d unsat=%d unknown=%d\n",
		res.Paths, res.Infeasible, res.Decisions, res.Queries, res.Merges, res.Steps, res.Wall.Seconds(), res.Solver.Time.Seconds(), res.Solver.Sat, res.Solver.Unsat, res.Solver.Unknown)
	if fs := symgo.ForkSites(); len(fs) > 0 {
		type kv struct {
			k string
			v int
		}
		var l []kv
		for k, v := range fs {
			l = append(l, kv{k, v})
		}
		sort.Slice(l, func(i, j int) bool { return l[i].v > l[j].v })
		for i, e := range l {
			if i >= 15 {
				break
			}
			fmt.Printf("fork-site %6d %s\n", e.v, e.k)
		}
	}
	fmt.Println("fallbacks:", res.Fallbacks, "decided:", res.FallbackDecided, "pruned:", res.Pruned, "init steps:", res.InitSteps, "foreign globals:", len(res.ForeignGlobals))
	if res.Fatal != "" {
		fmt.Println("FATAL:", res.Fatal)
	}
	fmt.Println("incomplete:", res.Incomplete)
	for _, m := range res.IncompleteEx {
		fmt.Println("  ", m)
	}
	fmt.Println("asserts:", res.AssertSites, "reached:", res.Reached, "truncated:", res.Truncated)
	keys := []string{}
	for k := range res.ViolCount {
		keys = append(keys, k)
	}
	sort.Strings(keys)
	for _, k := range keys {
		fmt.Printf("violation %s x%d\n", k, res.ViolCount[k])
	}
	var nat *symgo.Native
	var bin string
	if native {
		workDir := filepath.Join(outDir, ".work", fmt.Sprintf("dev-%d", os.Getpid()))
		os.MkdirAll(workDir, 0o755)
		defer os.RemoveAll(workDir)
		nat = &symgo.Native{Ov: ov, WorkDir: workDir}
		bin, err = nat.Build(pkgDir, []string{fname})
		if err != nil {
			fmt.Println(err)
			return 2
		}
	}
	for _, v := range res.Violations {
		fmt.Printf("  %s known=%q inputs=%v\n", v.Site, v.Known, v.Inputs)
		if native {
			out := nat.Run(bin, &symgo.ReplayCase{Pkg: pkgDir, Harness: fname, Inputs: v.Inputs, Params: params}, 10*time.Second)
			fmt.Printf("    native: %s %s\n", out.Outcome, out.Detail)
		}
	}
	for _, s := range res.Samples {
		fmt.Printf("  sample inputs=%v obs=%v\n", s.Inputs, s.Observes)
		if native && s.Inputs != nil {
			out := nat.Run(bin, &symgo.ReplayCase{Pkg: pkgDir, Harness: fname, Inputs: s.Inputs, Params: params}, 10*time.Second)
			fmt.Printf("    native: %s %s obs=%v\n", out.Outcome, out.Detail, out.Observes)
		}
	}
	return 0
}
