package symgo

import (
	"go/token"
	"go/types"

	"golang.org/x/tools/go/ssa"
)

const tokenADD = token.ADD

// Goroutines run cooperatively under one fixed deterministic schedule: a `go` statement
// queues the new goroutine; a switch happens only when the running goroutine blocks on a
// channel operation or finishes, and then the runnable goroutine with the lowest id runs.
// No interleavings are explored. Each interpreted goroutine is a host goroutine; a baton
// (channel handshake) guarantees exactly one runs at a time.

type gor struct {
	id      int
	resume  chan struct{}
	started bool
	done    bool
	frame   *frame
	depth   int
	fn      Value
	args    []Value
	ready   func() bool // non-nil while blocked
}

type killG struct{}

func (in *Interp) goStmt(fn Value, args []Value, site ssa.CallInstruction) {
	if !in.ex.cfg.Goroutines {
		in.unsupported("go statement (goroutines disabled for this harness)")
	}
	g := &gor{id: len(in.gors), resume: make(chan struct{}), fn: fn, args: args}
	in.gors = append(in.gors, g)
}

func (in *Interp) sched() {}

func (in *Interp) pickOther(cur *gor) *gor {
	for _, g := range in.gors {
		if g == cur || g.done {
			continue
		}
		if g.ready == nil || g.ready() {
			return g
		}
	}
	return nil
}

// handTo transfers the baton to h (never returns control by itself).
func (in *Interp) handTo(h *gor) {
	in.cur = h
	in.curFrame, in.depth = h.frame, h.depth
	if !h.started {
		h.started = true
		go in.gorMain(h)
	} else {
		h.resume <- struct{}{}
	}
}

func (in *Interp) switchTo(g, h *gor) {
	g.frame, g.depth = in.curFrame, in.depth
	in.handTo(h)
	<-g.resume
}

func (in *Interp) gorMain(h *gor) {
	defer func() {
		r := recover()
		h.done = true
		if r != nil {
			if _, ok := r.(killG); !ok && in.abort == nil {
				if gp, ok := r.(*goPanic); ok {
					gp.msg = "[in goroutine] " + gp.msg
				}
				in.abort = r
			}
		}
		main := in.gors[0]
		next := main
		if in.abort == nil && !in.killing {
			if n := in.pickOther(h); n != nil {
				next = n
			}
		}
		in.handTo(next)
	}()
	in.callValue(h.fn, h.args, nil)
}

// killAll terminates every suspended goroutine (called from the main goroutine).
func (in *Interp) killAll() {
	if len(in.gors) <= 1 {
		return
	}
	main := in.gors[0]
	in.killing = true
	for _, g := range in.gors[1:] {
		if g.started && !g.done {
			in.switchTo(main, g)
		}
	}
	in.killing = false
}

func (in *Interp) fireTimer() bool {
	if !in.ex.cfg.VirtualTime {
		return false
	}
	return in.fireEarliest(true)
}

// fireEarliest fires the pending timer with the earliest virtual deadline (ties: arming
// order) and advances the virtual clock to it. An AfterFunc callback runs in a goroutine of
// its own when asGoroutine is set (as the runtime does), otherwise inline (LetTimePass in
// harnesses without goroutines).
func (in *Interp) fireEarliest(asGoroutine bool) bool {
	var best *timerRec
	for _, t := range in.timers {
		if t.pending && (best == nil || t.at < best.at) {
			best = t
		}
	}
	if best == nil {
		return false
	}
	best.pending = false
	if best.at > in.vnow {
		in.vnow = best.at
	}
	if best.ch != nil {
		if len(best.ch.buf) < best.ch.cap {
			best.ch.buf = append(best.ch.buf, zeroTime)
		}
	} else if best.f != nil {
		if asGoroutine && in.ex.cfg.Goroutines {
			g := &gor{id: len(in.gors), resume: make(chan struct{}), fn: best.f}
			in.gors = append(in.gors, g)
		} else {
			in.callValue(best.f, nil, nil)
		}
	}
	return true
}

var zeroTime Value = Struct{uint64(0), uint64(0), (*Value)(nil)}

// block suspends the current goroutine until ready() holds, running others meanwhile.
// Returns false if no goroutine can make progress (global deadlock).
func (in *Interp) block(ready func() bool) bool {
	g := in.cur
	for {
		if ready() {
			g.ready = nil
			return true
		}
		g.ready = ready
		h := in.pickOther(g)
		if h == nil {
			if in.fireTimer() {
				continue
			}
			g.ready = nil
			return false
		}
		in.switchTo(g, h)
		if g.id != 0 && in.killing {
			panic(killG{})
		}
		if g.id == 0 && in.abort != nil {
			r := in.abort
			in.abort = nil
			g.ready = nil
			in.killAll()
			panic(r)
		}
	}
}

func never() bool { return false }

func (in *Interp) chanSend(c *Chan, v Value) {
	if c == nil {
		in.block(never)
		panic(pathEnd{"deadlock", "send on nil channel blocks forever at " + in.stackString()})
	}
	if c.closed {
		in.runtimePanic("send on closed channel")
	}
	if c.cap == 0 {
		c.buf = append(c.buf, v)
		c.pendingSync++
		mark := c.recvCount
		if !in.block(func() bool { return c.recvCount > mark || c.closed }) {
			panic(pathEnd{"deadlock", "send on unbuffered channel: no receiver (blocked forever) at " + in.stackString()})
		}
		return
	}
	if len(c.buf) >= c.cap {
		if !in.block(func() bool { return len(c.buf) < c.cap || c.closed }) {
			panic(pathEnd{"deadlock", "send on full channel: no receiver (blocked forever) at " + in.stackString()})
		}
		if c.closed {
			in.runtimePanic("send on closed channel")
		}
	}
	c.buf = append(c.buf, v)
}

func (in *Interp) chanRecv(c *Chan, et types.Type) (Value, bool) {
	if c == nil {
		in.block(never)
		panic(pathEnd{"deadlock", "receive from nil channel blocks forever at " + in.stackString()})
	}
	if len(c.buf) == 0 && !c.closed {
		c.recvWaiting++
		ok := in.block(func() bool { return len(c.buf) > 0 || c.closed })
		c.recvWaiting--
		if !ok {
			panic(pathEnd{"deadlock", "receive: no sender (blocked forever) at " + in.stackString()})
		}
	}
	if len(c.buf) > 0 {
		v := c.buf[0]
		c.buf = c.buf[1:]
		c.recvCount++
		if c.pendingSync > 0 {
			c.pendingSync--
		}
		return v, true
	}
	return zero(et), false
}

func (in *Interp) selectOp(fr *frame, i *ssa.Select) Value {
	// result tuple: (index int, recvOk bool, r_0 T_0, ... ) one r per receive state
	nRecv := 0
	for _, st := range i.States {
		if st.Dir == types.RecvOnly {
			nRecv++
		}
	}
	mk := func(idx int, ok bool, recvIdx int, v Value) Value {
		t := make(Tuple, 2+nRecv)
		t[0] = uint64(int64(idx))
		t[1] = ok
		k := 0
		for _, st := range i.States {
			if st.Dir == types.RecvOnly {
				t[2+k] = zero(st.Chan.Type().Underlying().(*types.Chan).Elem())
				if k == recvIdx {
					t[2+k] = v
				}
				k++
			}
		}
		return t
	}
	chans := make([]*Chan, len(i.States))
	sends := make([]Value, len(i.States))
	for idx, st := range i.States {
		chans[idx], _ = fr.get(st.Chan).(*Chan)
		if st.Dir == types.SendOnly {
			sends[idx] = copyVal(fr.get(st.Send))
		}
	}
	try := func() (Value, bool) {
		k := 0
		for idx, st := range i.States {
			c := chans[idx]
			if st.Dir == types.RecvOnly {
				if c != nil && (len(c.buf) > 0 || c.closed) {
					v, ok := in.chanRecv(c, st.Chan.Type().Underlying().(*types.Chan).Elem())
					return mk(idx, ok, k, v), true
				}
				k++
			} else if c != nil {
				if c.closed {
					in.runtimePanic("send on closed channel")
				}
				if c.cap > 0 && len(c.buf) < c.cap || c.cap == 0 && c.recvWaiting > len(c.buf) {
					c.buf = append(c.buf, sends[idx])
					return mk(idx, false, -1, nil), true
				}
			}
		}
		return nil, false
	}
	can := func() bool {
		for idx, st := range i.States {
			c := chans[idx]
			if c == nil {
				continue
			}
			if st.Dir == types.RecvOnly {
				if len(c.buf) > 0 || c.closed {
					return true
				}
			} else if c.closed || c.cap > 0 && len(c.buf) < c.cap || c.cap == 0 && c.recvWaiting > len(c.buf) {
				return true
			}
		}
		return false
	}
	if r, ok := try(); ok {
		return r
	}
	if !i.Blocking {
		return mk(-1, false, -1, nil)
	}
	for idx, st := range i.States {
		if c := chans[idx]; c != nil && st.Dir == types.RecvOnly {
			c.recvWaiting++
		}
	}
	ok := in.block(can)
	for idx, st := range i.States {
		if c := chans[idx]; c != nil && st.Dir == types.RecvOnly {
			c.recvWaiting--
		}
	}
	if !ok {
		panic(pathEnd{"deadlock", "select: no case can ever proceed (blocked forever) at " + in.stackString()})
	}
	r, ok2 := try()
	if !ok2 {
		engineErr("select: ready but no case fired")
	}
	return r
}

// tryMerge attempts to turn a side-effect-free diamond below a symbolic If into ite terms.
// Returns true if control was transferred to the join block.
func (in *Interp) tryMerge(fr *frame, i *ssa.If, c *Term) bool {
	if in.ex.cfg.NoMerge {
		return false
	}
	return in.mergeDiamond(fr, i, c)
}
