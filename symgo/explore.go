package symgo

import (
	"fmt"
	"go/types"
	"math/rand"
	"os"
	"runtime/debug"
	"sort"
	"strings"
	"sync"
	"time"

	"golang.org/x/tools/go/ssa"
)

type Config struct {
	Workers          int
	MaxSteps         int
	MaxConcretize    int
	MaxSymIndex      int
	Unwind           int
	MaxPaths         int
	Params           map[string]int
	KnownIDs         map[string]bool
	Z3               string
	QueryTimeoutMs   int
	Goroutines       bool
	VirtualTime      bool
	NoMerge          bool
	Seed             int64
	Samples          int // completed paths kept for native validation
	Deadline         time.Time
	Debug            bool
	KeepPerSite      int
	LazySlices       bool
	FallbackTimeoutS int
}

type WorkItem struct {
	prefix []Decision
	model  Model
}

type Violation struct {
	Site    string
	Known   string // id of the known region it falls in, "" = new
	Inputs  map[string]string
	Msg     string
	Stack   string
	PathLen int
}

type PathSample struct {
	Inputs   map[string]string
	Observes []string
	Outcome  string
}

type Result struct {
	Harness                    string
	Paths                      int // completed paths
	Infeasible                 int
	Incomplete                 map[string]int // reason class -> count
	IncompleteEx               []string
	Decisions                  int
	Queries                    int
	Pruned                     int
	Fallbacks, FallbackDecided int
	Merges                     int
	Steps                      int64
	Violations                 []Violation
	ViolCount                  map[string]int // site|known -> count
	AssertSites                map[string]int
	Reached                    map[string]int
	Samples                    []PathSample
	Functions                  map[string]bool
	Solver                     SolverStats
	SolverErrors               []string
	Truncated                  bool
	InitSteps                  int
	ForeignGlobals             map[string]bool // globals of packages whose init is not run, read as zero
	Wall                       time.Duration
	Fatal                      string
}

type Explorer struct {
	cfg         Config
	prog        *ssa.Program
	pkg         *ssa.Package
	fn          *ssa.Function
	mu          sync.Mutex
	cond        *sync.Cond
	queue       []WorkItem
	active      int
	popped      int
	res         Result
	rng         *rand.Rand
	seen        int
	stop        bool
	logging     bool
	whereSample string
}

func NewExplorer(prog *ssa.Program, pkg *ssa.Package, fn *ssa.Function, cfg Config) *Explorer {
	if cfg.Workers <= 0 {
		cfg.Workers = 16
	}
	if cfg.MaxSteps == 0 {
		cfg.MaxSteps = 20_000_000
	}
	if cfg.MaxConcretize == 0 {
		cfg.MaxConcretize = 4096
	}
	if cfg.MaxSymIndex == 0 {
		cfg.MaxSymIndex = 300
	}
	if cfg.Unwind == 0 {
		cfg.Unwind = 64
	}
	if cfg.Z3 == "" {
		cfg.Z3 = "z3"
		if v := os.Getenv("VERIF_Z3"); v != "" {
			cfg.Z3 = v
		}
	}
	if cfg.QueryTimeoutMs == 0 {
		cfg.QueryTimeoutMs = 10000
	}
	if cfg.Samples == 0 {
		cfg.Samples = 8
	}
	if cfg.FallbackTimeoutS == 0 {
		cfg.FallbackTimeoutS = 60
	}
	if cfg.KeepPerSite == 0 {
		cfg.KeepPerSite = 3
	}
	ex := &Explorer{cfg: cfg, prog: prog, pkg: pkg, fn: fn}
	ex.cond = sync.NewCond(&ex.mu)
	ex.rng = rand.New(rand.NewSource(cfg.Seed))
	ex.res = Result{Harness: fn.Name(), Incomplete: map[string]int{}, ViolCount: map[string]int{},
		AssertSites: map[string]int{}, Reached: map[string]int{}, Functions: map[string]bool{}}
	return ex
}

// forkSites counts, per function, the decisions that really forked (VERIF_FORKS=1: printed by
// vcheck harness); a profiling aid for harness design, not part of any verdict.
var (
	forkSites   = map[string]int{}
	forkSitesMu sync.Mutex
	forkProfile = os.Getenv("VERIF_FORKS") != ""
)

func noteFork(site string) {
	if !forkProfile {
		return
	}
	forkSitesMu.Lock()
	forkSites[site]++
	forkSitesMu.Unlock()
}

// ForkSites returns the fork profile (empty unless VERIF_FORKS is set).
func ForkSites() map[string]int { return forkSites }

func (ex *Explorer) push(path []Decision, alt Decision, m Model) {
	p := make([]Decision, len(path)+1)
	copy(p, path)
	p[len(path)] = alt
	ex.mu.Lock()
	ex.queue = append(ex.queue, WorkItem{prefix: p, model: m})
	ex.mu.Unlock()
	ex.cond.Signal()
}

func (ex *Explorer) pop() (WorkItem, bool) {
	ex.mu.Lock()
	defer ex.mu.Unlock()
	for {
		if ex.stop {
			return WorkItem{}, false
		}
		if len(ex.queue) > 0 {
			if ex.cfg.MaxPaths > 0 && ex.popped >= ex.cfg.MaxPaths || !ex.cfg.Deadline.IsZero() && time.Now().After(ex.cfg.Deadline) {
				ex.res.Truncated = true
				ex.queue = nil
				if ex.active == 0 {
					ex.cond.Broadcast()
					return WorkItem{}, false
				}
				continue
			}
			it := ex.queue[len(ex.queue)-1]
			ex.queue = ex.queue[:len(ex.queue)-1]
			ex.active++
			ex.popped++
			return it, true
		}
		if ex.active == 0 {
			ex.cond.Broadcast()
			return WorkItem{}, false
		}
		ex.cond.Wait()
	}
}

func (ex *Explorer) finish() {
	ex.mu.Lock()
	ex.active--
	if ex.active == 0 && len(ex.queue) == 0 {
		ex.cond.Broadcast()
	}
	ex.mu.Unlock()
}

func (ex *Explorer) noteUnknown() {}
func (ex *Explorer) noteFallback(r SatResult) {
	ex.mu.Lock()
	ex.res.Fallbacks++
	if r != Unknown {
		ex.res.FallbackDecided++
	}
	ex.mu.Unlock()
}
func (ex *Explorer) noteForeignGlobal(name string) {
	ex.mu.Lock()
	if ex.res.ForeignGlobals == nil {
		ex.res.ForeignGlobals = map[string]bool{}
	}
	ex.res.ForeignGlobals[name] = true
	ex.mu.Unlock()
}
func (ex *Explorer) noteMerge() {
	ex.mu.Lock()
	ex.res.Merges++
	ex.mu.Unlock()
}
func (ex *Explorer) noteSolverError(err error) {
	ex.mu.Lock()
	if len(ex.res.SolverErrors) < 5 {
		ex.res.SolverErrors = append(ex.res.SolverErrors, err.Error())
	}
	ex.res.Incomplete["solver-error"]++
	ex.mu.Unlock()
}
func (ex *Explorer) noteIncomplete(msg string) {
	ex.mu.Lock()
	cls := msg
	if i := strings.Index(cls, ":"); i > 0 {
		cls = cls[:i]
	}
	ex.res.Incomplete[cls]++
	if len(ex.res.IncompleteEx) < 20 {
		ex.res.IncompleteEx = append(ex.res.IncompleteEx, msg)
	}
	ex.mu.Unlock()
}
func (ex *Explorer) noteAssertSite(site string) {
	ex.mu.Lock()
	ex.res.AssertSites[site]++
	ex.mu.Unlock()
}
func (ex *Explorer) knownListed(id string) bool { return ex.cfg.KnownIDs[id] }
func (ex *Explorer) siteHasNew(site string) bool {
	ex.mu.Lock()
	defer ex.mu.Unlock()
	return ex.res.ViolCount[site+"|"] > 0
}

func modelInputs(in *Interp, m Model) map[string]string {
	out := map[string]string{}
	for _, v := range in.inputs {
		if r, ok := m[v.Name]; ok {
			out[v.Name] = r.RatString()
		} else {
			out[v.Name] = "0"
		}
	}
	return out
}

func (ex *Explorer) addViolation(in *Interp, site string, m Model, known string) {
	ex.mu.Lock()
	defer ex.mu.Unlock()
	key := site + "|" + known
	ex.res.ViolCount[key]++
	if ex.res.ViolCount[key] > ex.cfg.KeepPerSite {
		return
	}
	ex.res.Violations = append(ex.res.Violations, Violation{Site: site, Known: known, Inputs: modelInputs(in, m), PathLen: len(in.path)})
}

// ---------------------------------------------------------------- worker

func (ex *Explorer) newInterp() (*Interp, error) {
	sol, err := NewSolver(ex.cfg.Z3, "-in", fmt.Sprintf("-t:%d", ex.cfg.QueryTimeoutMs))
	if err != nil {
		return nil, err
	}
	if p := os.Getenv("VERIF_SMT_LOG"); p != "" {
		ex.mu.Lock()
		if !ex.logging {
			ex.logging = true
			f, _ := os.Create(p)
			sol.Log = f
		}
		ex.mu.Unlock()
	}
	in := &Interp{prog: ex.prog, tt: NewTermTable(), sol: sol, ex: ex,
		globals: map[*ssa.Global]*Value{}, consts: map[*ssa.Const]Value{},
		methods: map[types.Type]map[string]*ssa.Function{}, implCache: map[[2]types.Type]bool{},
		fnIntr: map[*ssa.Function]intrinsic{}, fnIntrNo: map[*ssa.Function]bool{},
		pdoms: map[*ssa.Function][]int{}, merges: map[*ssa.BasicBlock]*mergeInfo{},
		unwind: ex.cfg.Unwind, mainPkg: ex.pkg}
	for _, p := range ex.prog.AllPackages() {
		if strings.HasPrefix(p.Pkg.Path(), repoMod) {
			in.repoPkgs = append(in.repoPkgs, p)
		}
	}
	return in, nil
}

func (in *Interp) resetPath(it WorkItem) {
	in.prefix = it.prefix
	in.dpos = 0
	in.path = in.path[:0]
	in.model = it.model
	if in.model == nil && len(it.prefix) == 0 {
		in.model = Model{}
	}
	in.evc = evalCache{}
	in.asserted = map[*Term]bool{}
	in.pc = in.pc[:0]
	in.inputs = nil
	in.inputCnt = map[string]int{}
	in.pcLen = 0
	in.known = nil
	in.observes = nil
	in.reached = map[string]bool{}
	in.steps = 0
	in.backEdges = 0
	in.termBudget = 0
	in.files = map[*Value]*[]Value{}
	in.timers = nil
	in.vnow = 0
	in.sigRegs = nil
	in.mutexes = nil
	in.env = map[string]string{}
	in.depth = 0
	in.curFrame = nil
	in.pathStats = PathStats{}
	in.spec = false
	in.onceDone = map[*Value]bool{}
	in.pools = map[*Value][]Value{}
	in.gors = []*gor{{id: 0, resume: make(chan struct{}), started: true}}
	in.cur = in.gors[0]
	in.abort = nil
	in.killing = false
}

// initWorld runs package initialisers once per worker.
func (in *Interp) initWorld() {
	in.resetPath(WorkItem{})
	in.unwind = 1 << 30
	in.callFn(in.mainPkg.Func("init"), nil, nil, nil)
	in.unwind = in.ex.cfg.Unwind
	in.initSteps = in.steps
}

// reinitRepo zeroes the globals of /repo packages and re-runs their initialisers.
func (in *Interp) reinitRepo() {
	for _, p := range in.repoPkgs {
		if !in.initAllowed(p) {
			continue
		}
		for _, m := range p.Members {
			if g, ok := m.(*ssa.Global); ok {
				if cell, ok := in.globals[g]; ok {
					*cell = zero(g.Type().(*types.Pointer).Elem())
				}
			}
		}
	}
	in.unwind = 1 << 30
	in.callFn(in.mainPkg.Func("init"), nil, nil, nil)
	in.unwind = in.ex.cfg.Unwind
	in.steps = 0
	in.backEdges = 0
}

func (ex *Explorer) worker(id int, wg *sync.WaitGroup) {
	defer wg.Done()
	in, err := ex.newInterp()
	if err != nil {
		ex.fatal("solver start: " + err.Error())
		return
	}
	defer in.sol.Close()
	ok := ex.guard(in, func() { in.initWorld() })
	if !ok {
		return
	}
	dirty := false
	for {
		it, ok := ex.pop()
		if !ok {
			break
		}
		ex.runPath(in, it, dirty)
		dirty = true
		ex.finish()
	}
	ex.mu.Lock()
	ex.res.InitSteps = in.initSteps
	ex.res.Solver.Add(in.sol.Stats)
	for f := range in.fnIntrNo {
		if f.Pkg != nil && strings.HasPrefix(f.Pkg.Pkg.Path(), repoMod) && !strings.HasPrefix(f.Pkg.Pkg.Path(), harnessPkg) {
			ex.res.Functions[f.String()] = true
		}
	}
	ex.mu.Unlock()
}

func (ex *Explorer) fatal(msg string) {
	ex.mu.Lock()
	if ex.res.Fatal == "" {
		ex.res.Fatal = msg
	}
	ex.stop = true
	ex.mu.Unlock()
	ex.cond.Broadcast()
}

// guard runs f converting engine errors into a fatal result.
func (ex *Explorer) guard(in *Interp, f func()) (ok bool) {
	defer func() {
		if r := recover(); r != nil {
			ok = false
			switch e := r.(type) {
			case engineError:
				ex.fatal("engine error during init: " + e.msg + " at [" + in.instrString() + "] @ " + in.stackString())
			case pathEnd:
				ex.fatal("init: " + e.kind + ": " + e.msg)
			case *goPanic:
				ex.fatal("init: panic: " + e.msg + " @ " + e.stack)
			default:
				ex.fatal(fmt.Sprintf("init: host panic: %v at [%s] stack: %s\n%s", r, in.instrString(), in.stackString(), debug.Stack()))
			}
		}
	}()
	f()
	return true
}

func (ex *Explorer) runPath(in *Interp, it WorkItem, reinit bool) {
	in.resetPath(it)
	in.sol.Push()
	end := pathEnd{kind: "completed"}
	var escaped *goPanic
	func() {
		defer func() {
			if r := recover(); r != nil {
				switch e := r.(type) {
				case pathEnd:
					end = e
				case *goPanic:
					escaped = e
					end = pathEnd{kind: "panic"}
				case engineError:
					end = pathEnd{kind: "engine", msg: e.msg + " at [" + in.instrString() + "] @ " + in.stackString()}
				default:
					end = pathEnd{kind: "engine", msg: fmt.Sprintf("host panic: %v at [%s]\n%s", r, in.instrString(), debug.Stack())}
				}
			}
		}()
		if reinit {
			in.reinitRepo()
		}
		in.callFn(ex.fn, nil, nil, nil)
		if in.dpos < len(in.prefix) {
			engineErr("replay divergence: path ended with %d of %d forced decisions unused", in.dpos, len(in.prefix))
		}
	}()
	func() {
		defer func() { recover() }()
		in.killAll()
	}()
	// classify
	switch end.kind {
	case "completed":
		ex.recordCompleted(in)
	case "panic":
		func() {
			defer func() {
				if r := recover(); r != nil {
					if pe, ok := r.(pathEnd); ok {
						if pe.kind != "infeasible" {
							ex.noteIncomplete("panic-path: " + pe.kind + " " + pe.msg)
						}
						return
					}
					panic(r)
				}
			}()
			in.needModel()
			site := "panic:" + panicSite(escaped)
			in.lastPanic = escaped
			in.reportViolation(site, in.model, nil)
		}()
	case "nonterm":
		func() {
			defer func() {
				if r := recover(); r != nil {
					if _, ok := r.(pathEnd); ok {
						return
					}
					panic(r)
				}
			}()
			in.needModel()
			in.reportViolation("nonterm:loop-budget", in.model, nil)
		}()
	case "deadlock":
		func() {
			defer func() {
				if r := recover(); r != nil {
					if _, ok := r.(pathEnd); ok {
						return
					}
					panic(r)
				}
			}()
			in.needModel()
			msg := end.msg
			if i := strings.Index(msg, " at "); i > 0 {
				msg = msg[:i]
			}
			in.reportViolation("deadlock:"+msg, in.model, nil)
		}()
	case "infeasible":
		ex.mu.Lock()
		ex.res.Infeasible++
		ex.mu.Unlock()
	case "done":
		// ended after a reported assertion failure
		ex.mu.Lock()
		ex.res.Paths++
		ex.mu.Unlock()
	case "engine":
		ex.fatal("engine error: " + end.msg)
	default:
		ex.noteIncomplete(end.kind + ": " + end.msg)
	}
	ex.mu.Lock()
	ex.whereSample = fmt.Sprintf("steps=%d dec=%d q=%d end=%s", in.steps, in.pathStats.Decisions, in.pathStats.Queries, end.kind)
	ex.res.Decisions += in.pathStats.Decisions
	ex.res.Queries += in.pathStats.Queries
	ex.res.Pruned += in.pathStats.Pruned
	ex.res.Steps += int64(in.steps)
	ex.mu.Unlock()
	in.sol.Pop()
	if in.sol.Stats.Errors > 0 && in.sol.cmd == nil {
		in.sol.Restart()
	}
}

func panicSite(gp *goPanic) string {
	msg := gp.msg
	// strip numbers so that sites aggregate
	var sb strings.Builder
	for _, c := range msg {
		if c >= '0' && c <= '9' {
			continue
		}
		sb.WriteRune(c)
	}
	s := sb.String()
	if len(s) > 80 {
		s = s[:80]
	}
	return s + "@" + gp.pos
}

func (ex *Explorer) recordCompleted(in *Interp) {
	// build the sample before taking the lock
	var smp *PathSample
	ex.mu.Lock()
	ex.res.Paths++
	ex.seen++
	n := ex.seen
	for k := range in.reached {
		ex.res.Reached[k]++
	}
	keep := -1
	if len(ex.res.Samples) < ex.cfg.Samples {
		keep = len(ex.res.Samples)
		ex.res.Samples = append(ex.res.Samples, PathSample{})
	} else if j := ex.rng.Intn(n); j < ex.cfg.Samples {
		keep = j
	}
	ex.mu.Unlock()
	if keep < 0 {
		return
	}
	func() {
		defer func() { recover() }()
		in.needModel()
		s := PathSample{Inputs: modelInputs(in, in.model), Outcome: "pass"}
		ec := evalCache{}
		for _, o := range in.observes {
			s.Observes = append(s.Observes, o.label+"="+in.showObserved(o.val, ec))
		}
		smp = &s
	}()
	if smp != nil {
		ex.mu.Lock()
		ex.res.Samples[keep] = *smp
		ex.mu.Unlock()
	}
}

// showObserved renders an observed value under the path's model, matching the native
// zzverif.Observe formatting (%v for scalars and strings).
func (in *Interp) showObserved(iv Iface, ec evalCache) string {
	v := iv.V
	w, signed, isInt := intInfo(iv.T)
	switch x := v.(type) {
	case uint64:
		if isInt && signed {
			return fmt.Sprint(sext(x, w))
		}
		return fmt.Sprint(x)
	case bool:
		return fmt.Sprint(x)
	case string:
		return x
	case *Term:
		if x.W == SortBool {
			return fmt.Sprint(EvalU(x, in.model, ec) != 0)
		}
		if x.W == SortReal {
			return Eval(x, in.model, ec).RatString()
		}
		if isInt && signed {
			return fmt.Sprint(sext(EvalU(x, in.model, ec), w))
		}
		return fmt.Sprint(EvalU(x, in.model, ec))
	case *SymStr:
		var sb strings.Builder
		for _, b := range x.B {
			switch c := b.(type) {
			case uint64:
				sb.WriteByte(byte(c))
			case *Term:
				sb.WriteByte(byte(EvalU(c, in.model, ec)))
			}
		}
		return sb.String()
	}
	return fmt.Sprintf("<%T>", v)
}

func (ex *Explorer) Run() *Result {
	t0 := time.Now()
	ex.queue = []WorkItem{{}}
	var wg sync.WaitGroup
	if os.Getenv("VERIF_PROGRESS") != "" {
		go func() {
			for {
				time.Sleep(10 * time.Second)
				ex.mu.Lock()
				fmt.Fprintf(os.Stderr, "[progress] popped=%d queue=%d active=%d paths=%d queries=%d solver=%.0fs where=%v\n", ex.popped, len(ex.queue), ex.active, ex.res.Paths, ex.res.Queries, ex.res.Solver.Time.Seconds(), ex.whereSample)
				ex.mu.Unlock()
			}
		}()
	}
	for i := 0; i < ex.cfg.Workers; i++ {
		wg.Add(1)
		go ex.worker(i, &wg)
	}
	wg.Wait()
	ex.res.Wall = time.Since(t0)
	sort.Slice(ex.res.Violations, func(i, j int) bool {
		a, b := ex.res.Violations[i], ex.res.Violations[j]
		if a.Site != b.Site {
			return a.Site < b.Site
		}
		return a.Known < b.Known
	})
	return &ex.res
}

var _ = os.Getenv
