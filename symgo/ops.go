package symgo

import (
	"fmt"
	"go/token"
	"go/types"
	"math"
	"math/big"
	"unicode/utf8"
)

func (in *Interp) realTerm(v Value) *Term {
	switch x := v.(type) {
	case *Term:
		return x
	case float64:
		r := new(big.Rat)
		if math.IsInf(x, 0) || math.IsNaN(x) {
			in.unsupported("non-finite float in symbolic expression")
		}
		r.SetFloat64(x)
		return in.tt.RConst(r)
	}
	panic(fmt.Sprintf("realTerm %T", v))
}

var cmpOps = map[token.Token]bool{token.EQL: true, token.NEQ: true, token.LSS: true, token.LEQ: true, token.GTR: true, token.GEQ: true}

func (in *Interp) binop(op token.Token, t types.Type, x, y Value) Value {
	// integer fast path
	if w, signed, ok := intInfo(t); ok {
		xc, xok := x.(uint64)
		yc, yok := y.(uint64)
		if op == token.SHL || op == token.SHR {
			return in.shift(op, w, signed, x, y)
		}
		if xok && yok {
			return in.intOpConc(op, w, signed, xc, yc)
		}
		return in.intOpSym(op, w, signed, in.toTerm(x, w), in.toTerm(y, w))
	}
	if isFloat(t) {
		xf, xok := x.(float64)
		yf, yok := y.(float64)
		if xok && yok {
			f32 := under(t).(*types.Basic).Kind() == types.Float32
			var r float64
			switch op {
			case token.ADD:
				r = xf + yf
			case token.SUB:
				r = xf - yf
			case token.MUL:
				r = xf * yf
			case token.QUO:
				r = xf / yf
			case token.EQL:
				return xf == yf
			case token.NEQ:
				return xf != yf
			case token.LSS:
				return xf < yf
			case token.LEQ:
				return xf <= yf
			case token.GTR:
				return xf > yf
			case token.GEQ:
				return xf >= yf
			default:
				engineErr("float op %v", op)
			}
			if f32 {
				r = float64(float32(r))
			}
			return r
		}
		// comparisons of a symbolic (finite, Real-abstracted) value with a concrete infinity
		if r, ok := in.cmpInf(op, x, y); ok {
			return r
		}
		a, b := in.realTerm(x), in.realTerm(y)
		switch op {
		case token.ADD:
			return in.tt.RBin(OpRAdd, a, b)
		case token.SUB:
			return in.tt.RBin(OpRSub, a, b)
		case token.MUL:
			return in.tt.RBin(OpRMul, a, b)
		case token.QUO:
			// division by a symbolic zero yields Inf in Go; the Real abstraction cannot
			// represent it: fork and stop the path as unsupported when the divisor can be 0.
			if in.decide(in.tt.RBin(OpEq, b, in.tt.RConst(ratZero))) {
				in.unsupported("float division by zero (Inf/NaN) under Real abstraction")
			}
			return in.tt.RBin(OpRDiv, a, b)
		case token.EQL:
			return in.tt.RBin(OpEq, a, b)
		case token.NEQ:
			return in.tt.Not(in.tt.RBin(OpEq, a, b))
		case token.LSS:
			return in.tt.RBin(OpRLt, a, b)
		case token.LEQ:
			return in.tt.RBin(OpRLe, a, b)
		case token.GTR:
			return in.tt.RBin(OpRLt, b, a)
		case token.GEQ:
			return in.tt.RBin(OpRLe, b, a)
		}
		engineErr("float op %v", op)
	}
	if isBool(t) {
		switch op {
		case token.EQL:
			return in.equal(x, y, t)
		case token.NEQ:
			return in.notv(in.equal(x, y, t))
		case token.AND, token.LAND:
			return in.andv(x, y)
		case token.OR, token.LOR:
			return in.orv(x, y)
		}
		engineErr("bool op %v", op)
	}
	if isString(t) {
		switch op {
		case token.ADD:
			return strConcat(x, y)
		case token.EQL:
			return in.equal(x, y, t)
		case token.NEQ:
			return in.notv(in.equal(x, y, t))
		case token.LSS, token.LEQ, token.GTR, token.GEQ:
			xs, xok := x.(string)
			ys, yok := y.(string)
			if xok && yok {
				switch op {
				case token.LSS:
					return xs < ys
				case token.LEQ:
					return xs <= ys
				case token.GTR:
					return xs > ys
				case token.GEQ:
					return xs >= ys
				}
			}
			return in.strOrder(op, x, y)
		}
	}
	switch op {
	case token.EQL:
		return in.equal(x, y, t)
	case token.NEQ:
		return in.notv(in.equal(x, y, t))
	}
	engineErr("binop %v on %T,%T (%v)", op, x, y, t)
	return nil
}

func (in *Interp) strOrder(op token.Token, x, y Value) Value {
	// lexicographic comparison, built from the end
	bx, by := strBytes(x), strBytes(y)
	n := len(bx)
	if len(by) < n {
		n = len(by)
	}
	// less := result if all first n equal
	var less, eq *Term
	less = in.tt.Bool(len(bx) < len(by))
	eq = in.tt.Bool(len(bx) == len(by))
	for k := n - 1; k >= 0; k-- {
		a, b := in.toTerm(bx[k], 8), in.toTerm(by[k], 8)
		lt := in.tt.Cmp(OpULt, a, b)
		e := in.tt.Cmp(OpEq, a, b)
		less = in.tt.Or(lt, in.tt.And(e, less))
		eq = in.tt.And(e, eq)
	}
	var r *Term
	switch op {
	case token.LSS:
		r = less
	case token.LEQ:
		r = in.tt.Or(less, eq)
	case token.GTR:
		r = in.tt.Not(in.tt.Or(less, eq))
	case token.GEQ:
		r = in.tt.Not(less)
	}
	return in.simpBool(r)
}

func (in *Interp) simpBool(t *Term) Value {
	if t.IsConst() {
		return t.K != 0
	}
	return t
}

func (in *Interp) notv(v Value) Value {
	switch b := v.(type) {
	case bool:
		return !b
	case *Term:
		return in.simpBool(in.tt.Not(b))
	}
	panic("notv")
}

func (in *Interp) andv(x, y Value) Value {
	if b, ok := x.(bool); ok {
		if !b {
			return false
		}
		return y
	}
	if b, ok := y.(bool); ok {
		if !b {
			return false
		}
		return x
	}
	return in.simpBool(in.tt.And(x.(*Term), y.(*Term)))
}

func (in *Interp) orv(x, y Value) Value {
	if b, ok := x.(bool); ok {
		if b {
			return true
		}
		return y
	}
	if b, ok := y.(bool); ok {
		if b {
			return true
		}
		return x
	}
	return in.simpBool(in.tt.Or(x.(*Term), y.(*Term)))
}

func (in *Interp) intOpConc(op token.Token, w uint8, signed bool, x, y uint64) Value {
	m := mask(w)
	switch op {
	case token.ADD:
		return (x + y) & m
	case token.SUB:
		return (x - y) & m
	case token.MUL:
		return (x * y) & m
	case token.QUO, token.REM:
		if y == 0 {
			in.runtimePanic("integer divide by zero")
		}
		if signed {
			sx, sy := sext(x, w), sext(y, w)
			if op == token.QUO {
				if sy == -1 {
					return uint64(-sx) & m
				}
				return uint64(sx/sy) & m
			}
			if sy == -1 {
				return uint64(0)
			}
			return uint64(sx%sy) & m
		}
		if op == token.QUO {
			return x / y
		}
		return x % y
	case token.AND:
		return x & y
	case token.OR:
		return x | y
	case token.XOR:
		return x ^ y
	case token.AND_NOT:
		return x &^ y
	case token.EQL:
		return x == y
	case token.NEQ:
		return x != y
	case token.LSS:
		if signed {
			return sext(x, w) < sext(y, w)
		}
		return x < y
	case token.LEQ:
		if signed {
			return sext(x, w) <= sext(y, w)
		}
		return x <= y
	case token.GTR:
		if signed {
			return sext(x, w) > sext(y, w)
		}
		return x > y
	case token.GEQ:
		if signed {
			return sext(x, w) >= sext(y, w)
		}
		return x >= y
	}
	engineErr("int op %v", op)
	return nil
}

func (in *Interp) intOpSym(op token.Token, w uint8, signed bool, a, b *Term) Value {
	tt := in.tt
	var r *Term
	switch op {
	case token.ADD:
		r = tt.Bin(OpAdd, a, b)
	case token.SUB:
		r = tt.Bin(OpSub, a, b)
	case token.MUL:
		r = tt.Bin(OpMul, a, b)
	case token.QUO, token.REM:
		if !b.IsConst() {
			if in.decide(tt.Cmp(OpEq, b, tt.Const(w, 0))) {
				in.runtimePanic("integer divide by zero")
			}
		} else if b.K == 0 {
			in.runtimePanic("integer divide by zero")
		}
		switch {
		case op == token.QUO && signed:
			r = tt.Bin(OpSDiv, a, b)
		case op == token.QUO:
			r = tt.Bin(OpUDiv, a, b)
		case signed:
			r = tt.Bin(OpSRem, a, b)
		default:
			r = tt.Bin(OpURem, a, b)
		}
	case token.AND:
		r = tt.Bin(OpAnd, a, b)
	case token.OR:
		r = tt.Bin(OpOr, a, b)
	case token.XOR:
		r = tt.Bin(OpXor, a, b)
	case token.AND_NOT:
		r = tt.Bin(OpAnd, a, tt.BVNot(b))
	case token.EQL:
		return in.simpBool(tt.Cmp(OpEq, a, b))
	case token.NEQ:
		return in.simpBool(tt.Not(tt.Cmp(OpEq, a, b)))
	case token.LSS:
		if signed {
			return in.simpBool(tt.Cmp(OpSLt, a, b))
		}
		return in.simpBool(tt.Cmp(OpULt, a, b))
	case token.LEQ:
		if signed {
			return in.simpBool(tt.Cmp(OpSLe, a, b))
		}
		return in.simpBool(tt.Cmp(OpULe, a, b))
	case token.GTR:
		if signed {
			return in.simpBool(tt.Cmp(OpSLt, b, a))
		}
		return in.simpBool(tt.Cmp(OpULt, b, a))
	case token.GEQ:
		if signed {
			return in.simpBool(tt.Cmp(OpSLe, b, a))
		}
		return in.simpBool(tt.Cmp(OpULe, b, a))
	default:
		engineErr("int op %v", op)
	}
	if r.IsConst() {
		return r.K
	}
	return r
}

// shift: the count y may have a different type/width; negative signed counts panic.
func (in *Interp) shift(op token.Token, w uint8, signed bool, x, y Value) Value {
	// normalise the count to a uint64/term of width 64; callers pass the raw operand so we
	// do not know y's static type: treat a concrete y as non-negative if < 2^63.
	switch yc := y.(type) {
	case uint64:
		switch xc := x.(type) {
		case uint64:
			if op == token.SHL {
				if yc >= uint64(w) {
					return uint64(0)
				}
				return (xc << yc) & mask(w)
			}
			if signed {
				if yc >= uint64(w) {
					yc = uint64(w) - 1
				}
				return uint64(sext(xc, w)>>yc) & mask(w)
			}
			if yc >= uint64(w) {
				return uint64(0)
			}
			return xc >> yc
		case *Term:
			if yc >= uint64(w) {
				if op == token.SHR && signed {
					yc = uint64(w) - 1
				} else {
					return uint64(0)
				}
			}
			k := in.tt.Const(w, yc)
			var r *Term
			switch {
			case op == token.SHL:
				r = in.tt.Bin(OpShl, xc, k)
			case signed:
				r = in.tt.Bin(OpAShr, xc, k)
			default:
				r = in.tt.Bin(OpLShr, xc, k)
			}
			return r
		}
	case *Term:
		// symbolic shift count: widen/narrow to w, saturating
		var cnt *Term
		if yc.W > w {
			big := in.tt.Cmp(OpULe, in.tt.Const(yc.W, uint64(w)), yc)
			cnt = in.tt.Ite(big, in.tt.Const(w, uint64(w)), in.tt.Extract(yc, 0, w))
		} else {
			cnt = in.tt.ZExt(yc, w)
		}
		xt := in.toTerm(x, w)
		switch {
		case op == token.SHL:
			return in.tt.Bin(OpShl, xt, cnt)
		case signed:
			return in.tt.Bin(OpAShr, xt, cnt)
		default:
			return in.tt.Bin(OpLShr, xt, cnt)
		}
	}
	engineErr("shift %T %T", x, y)
	return nil
}

// equal compares two values of the same static type; returns bool or *Term.
func (in *Interp) equal(x, y Value, t types.Type) Value {
	switch a := x.(type) {
	case uint64:
		switch b := y.(type) {
		case uint64:
			return a == b
		case *Term:
			return in.simpBool(in.tt.Cmp(OpEq, in.tt.Const(b.W, a), b))
		}
	case bool:
		switch b := y.(type) {
		case bool:
			return a == b
		case *Term:
			return in.simpBool(in.tt.Cmp(OpEq, in.tt.Bool(a), b))
		}
	case *Term:
		if a.W == SortReal {
			return in.simpBool(in.tt.RBin(OpEq, a, in.realTerm(y)))
		}
		switch b := y.(type) {
		case uint64:
			return in.simpBool(in.tt.Cmp(OpEq, a, in.tt.Const(a.W, b)))
		case bool:
			return in.simpBool(in.tt.Cmp(OpEq, a, in.tt.Bool(b)))
		case *Term:
			return in.simpBool(in.tt.Cmp(OpEq, a, b))
		}
	case float64:
		switch b := y.(type) {
		case float64:
			return a == b
		case *Term:
			return in.simpBool(in.tt.RBin(OpEq, in.realTerm(a), b))
		}
	case string:
		if b, ok := y.(string); ok {
			return a == b
		}
		return in.strEq(x, y)
	case *SymStr:
		return in.strEq(x, y)
	case *Value:
		if b, ok := y.(*Value); ok {
			return a == b
		}
		if _, ok := y.(*SymPtr); ok {
			return in.equal(y, x, t)
		}
	case *SymPtr:
		switch b := y.(type) {
		case *Value:
			var r Value = false
			for _, c := range a.c {
				if c.p == b {
					r = in.orv(r, in.simpBool(c.g))
				}
			}
			return r
		}
		in.unsupported("comparison of symbolic pointers")
	case *Map:
		b, _ := y.(*Map)
		return a == b
	case *Chan:
		b, _ := y.(*Chan)
		return a == b
	case *Closure:
		b, _ := y.(*Closure)
		if a == nil || b == nil {
			return a == b
		}
		return a == b
	case Slice:
		// only comparison with nil is legal
		if b, ok := y.(Slice); ok {
			if a == nil || b == nil {
				return (a == nil) == (b == nil)
			}
		}
	case Iface:
		b := y.(Iface)
		if a.T == nil || b.T == nil {
			return a.T == nil && b.T == nil
		}
		if !types.Identical(a.T, b.T) {
			return false
		}
		return in.equal(a.V, b.V, a.T)
	case Struct:
		b := y.(Struct)
		var r Value = true
		for i := range a {
			r = in.andv(r, in.equal(a[i], b[i], nil))
			if rb, ok := r.(bool); ok && !rb {
				return false
			}
		}
		return r
	case Array:
		b := y.(Array)
		var r Value = true
		for i := range a {
			r = in.andv(r, in.equal(a[i], b[i], nil))
			if rb, ok := r.(bool); ok && !rb {
				return false
			}
		}
		return r
	}
	engineErr("equal %T %T", x, y)
	return nil
}

func (in *Interp) strEq(x, y Value) Value {
	if strLen(x) != strLen(y) {
		return false
	}
	bx, by := strBytes(x), strBytes(y)
	r := in.tt.True
	for i := range bx {
		r = in.tt.And(r, in.boolTerm(in.equal(bx[i], by[i], nil)))
		if r.IsConst() && r.K == 0 {
			return false
		}
	}
	return in.simpBool(r)
}

// ---------------------------------------------------------------- conversions

func (in *Interp) convert(from, to types.Type, x Value) Value {
	uf, ut := under(from), under(to)
	if fw, fs, ok := intInfo(from); ok {
		if tw, _, ok := intInfo(to); ok {
			switch v := x.(type) {
			case uint64:
				if fs {
					return uint64(sext(v, fw)) & mask(tw)
				}
				return v & mask(tw)
			case *Term:
				var r *Term
				if tw <= fw {
					r = in.tt.Extract(v, 0, tw)
				} else if fs {
					r = in.tt.SExt(v, tw)
				} else {
					r = in.tt.ZExt(v, tw)
				}
				if r.IsConst() {
					return r.K
				}
				return r
			}
		}
		if isFloat(to) {
			f32 := ut.(*types.Basic).Kind() == types.Float32
			switch v := x.(type) {
			case uint64:
				var f float64
				if fs {
					f = float64(sext(v, fw))
				} else {
					f = float64(v)
				}
				if f32 {
					f = float64(float32(f))
				}
				return f
			case *Term:
				it, _, _ := in.bvToInt(v, fs)
				return in.tt.Un(OpI2R, SortReal, it)
			}
		}
		if isString(to) {
			switch v := x.(type) {
			case uint64:
				var r rune
				if fs {
					sv := sext(v, fw)
					if sv < 0 || sv > 0x10FFFF {
						r = utf8.RuneError
					} else {
						r = rune(sv)
					}
				} else if v > 0x10FFFF {
					r = utf8.RuneError
				} else {
					r = rune(v)
				}
				return string(r)
			case *Term:
				var t32 *Term
				if fw >= 32 {
					// out-of-range values map to RuneError
					inr := in.tt.Cmp(OpULe, v, in.tt.Const(fw, 0x10FFFF))
					if !in.decide(inr) {
						return string(utf8.RuneError)
					}
					t32 = in.tt.Extract(v, 0, 32)
				} else {
					t32 = in.tt.ZExt(v, 32)
				}
				return in.runeToStr(t32)
			}
		}
	}
	if isFloat(from) {
		if isFloat(to) {
			if f, ok := x.(float64); ok {
				if ut.(*types.Basic).Kind() == types.Float32 {
					return float64(float32(f))
				}
				return f
			}
			return x
		}
		if tw, ts, ok := intInfo(to); ok {
			switch v := x.(type) {
			case float64:
				if ts {
					return uint64(int64(v)) & mask(tw)
				}
				return uint64(v) & mask(tw)
			case *Term:
				return in.tt.Un(OpInt2BV, tw, in.tt.Un(OpR2I, SortInt, v))
			}
		}
	}
	if isString(from) {
		if sl, ok := ut.(*types.Slice); ok {
			eb := sl.Elem().Underlying().(*types.Basic)
			if eb.Kind() == types.Uint8 {
				b := strBytes(x)
				out := make(Slice, len(b))
				copy(out, b)
				return out
			}
			if eb.Kind() == types.Int32 {
				b := strBytes(x)
				out := Slice{}
				for p := 0; p < len(b); {
					r, sz := in.decodeRune(b, p)
					out = append(out, r)
					p += sz
				}
				return out
			}
		}
		if isString(to) {
			return x
		}
	}
	if sl, ok := uf.(*types.Slice); ok && isString(to) {
		eb := sl.Elem().Underlying().(*types.Basic)
		s := x.(Slice)
		if eb.Kind() == types.Uint8 {
			return mkStr(s)
		}
		if eb.Kind() == types.Int32 {
			var out Value = ""
			for _, r := range s {
				switch rv := r.(type) {
				case uint64:
					sv := sext(rv, 32)
					rr := rune(sv)
					if sv < 0 || sv > 0x10FFFF {
						rr = utf8.RuneError
					}
					out = strConcat(out, string(rr))
				case *Term:
					out = strConcat(out, in.runeToStr(rv))
				}
			}
			return out
		}
	}
	if _, ok := ut.(*types.Pointer); ok {
		if b, ok := uf.(*types.Basic); ok && b.Kind() == types.UnsafePointer {
			return x
		}
	}
	if b, ok := ut.(*types.Basic); ok && b.Kind() == types.UnsafePointer {
		return x
	}
	if types.Identical(uf, ut) {
		return x
	}
	in.unsupported("conversion %v -> %v", from, to)
	return nil
}

// runeToStr encodes a symbolic rune (BV32) as UTF-8, forking on the encoded length.
func (in *Interp) runeToStr(r *Term) Value {
	tt := in.tt
	c := func(v uint64) *Term { return tt.Const(32, v) }
	b8 := func(t *Term) Value {
		e := tt.Extract(t, 0, 8)
		if e.IsConst() {
			return e.K
		}
		return e
	}
	shr := func(t *Term, n uint64) *Term { return tt.Bin(OpLShr, t, c(n)) }
	and := func(t *Term, m uint64) *Term { return tt.Bin(OpAnd, t, c(m)) }
	or := func(t *Term, m uint64) *Term { return tt.Bin(OpOr, t, c(m)) }
	if in.decide(tt.Cmp(OpULt, r, c(0x80))) {
		return mkStr([]Value{b8(r)})
	}
	if in.decide(tt.Cmp(OpULt, r, c(0x800))) {
		return mkStr([]Value{b8(or(shr(r, 6), 0xC0)), b8(or(and(r, 0x3F), 0x80))})
	}
	// invalid: surrogates or > 0x10FFFF
	inval := tt.Or(tt.Cmp(OpULt, c(0x10FFFF), r), tt.And(tt.Cmp(OpULe, c(0xD800), r), tt.Cmp(OpULe, r, c(0xDFFF))))
	if in.decide(inval) {
		return string(utf8.RuneError)
	}
	if in.decide(tt.Cmp(OpULt, r, c(0x10000))) {
		return mkStr([]Value{b8(or(shr(r, 12), 0xE0)), b8(or(and(shr(r, 6), 0x3F), 0x80)), b8(or(and(r, 0x3F), 0x80))})
	}
	return mkStr([]Value{b8(or(shr(r, 18), 0xF0)), b8(or(and(shr(r, 12), 0x3F), 0x80)), b8(or(and(shr(r, 6), 0x3F), 0x80)), b8(or(and(r, 0x3F), 0x80))})
}

// decodeRune decodes one UTF-8 sequence at pos (Go semantics), forking on symbolic bytes.
func (in *Interp) decodeRune(b []Value, pos int) (Value, int) {
	n := len(b) - pos
	if n > 4 {
		n = 4
	}
	// concrete fast path
	var buf [4]byte
	conc := true
	for k := 0; k < n; k++ {
		c, ok := b[pos+k].(uint64)
		if !ok {
			// a concrete ASCII lead byte needs no further bytes
			if k > 0 && buf[0] < 0x80 {
				break
			}
			conc = false
			break
		}
		buf[k] = byte(c)
	}
	if c0, ok := b[pos].(uint64); ok && c0 < 0x80 {
		return c0, 1
	}
	if conc {
		r, sz := utf8.DecodeRune(buf[:n])
		return uint64(uint32(r)), sz
	}
	tt := in.tt
	c8 := func(v uint64) *Term { return tt.Const(8, v) }
	bt := func(k int) *Term { return in.toTerm(b[pos+k], 8) }
	between := func(t *Term, lo, hi *Term) *Term { return tt.And(tt.Cmp(OpULe, lo, t), tt.Cmp(OpULe, t, hi)) }
	z := func(t *Term, m uint64) *Term { return tt.ZExt(tt.Bin(OpAnd, t, c8(m)), 32) }
	shl := func(t *Term, k uint64) *Term { return tt.Bin(OpShl, t, tt.Const(32, k)) }
	ret := func(t *Term) Value {
		if t.IsConst() {
			return t.K
		}
		return t
	}
	bad := func() (Value, int) { return uint64(utf8.RuneError), 1 }
	b0 := bt(0)
	if in.decide(tt.Cmp(OpULt, b0, c8(0x80))) {
		return ret(tt.ZExt(b0, 32)), 1
	}
	if in.decide(tt.Or(tt.Cmp(OpULt, b0, c8(0xC2)), tt.Cmp(OpULt, c8(0xF4), b0))) {
		return bad()
	}
	if in.decide(tt.Cmp(OpULt, b0, c8(0xE0))) {
		if n < 2 {
			return bad()
		}
		b1 := bt(1)
		if !in.decide(between(b1, c8(0x80), c8(0xBF))) {
			return bad()
		}
		return ret(tt.Bin(OpOr, shl(z(b0, 0x1F), 6), z(b1, 0x3F))), 2
	}
	if in.decide(tt.Cmp(OpULt, b0, c8(0xF0))) {
		if n < 3 {
			return bad()
		}
		b1, b2 := bt(1), bt(2)
		lo := tt.Ite(tt.Cmp(OpEq, b0, c8(0xE0)), c8(0xA0), c8(0x80))
		hi := tt.Ite(tt.Cmp(OpEq, b0, c8(0xED)), c8(0x9F), c8(0xBF))
		if !in.decide(between(b1, lo, hi)) {
			return bad()
		}
		if !in.decide(between(b2, c8(0x80), c8(0xBF))) {
			return bad()
		}
		return ret(tt.Bin(OpOr, tt.Bin(OpOr, shl(z(b0, 0x0F), 12), shl(z(b1, 0x3F), 6)), z(b2, 0x3F))), 3
	}
	if n < 4 {
		return bad()
	}
	b1, b2, b3 := bt(1), bt(2), bt(3)
	lo := tt.Ite(tt.Cmp(OpEq, b0, c8(0xF0)), c8(0x90), c8(0x80))
	hi := tt.Ite(tt.Cmp(OpEq, b0, c8(0xF4)), c8(0x8F), c8(0xBF))
	if !in.decide(between(b1, lo, hi)) {
		return bad()
	}
	if !in.decide(between(b2, c8(0x80), c8(0xBF))) {
		return bad()
	}
	if !in.decide(between(b3, c8(0x80), c8(0xBF))) {
		return bad()
	}
	r := tt.Bin(OpOr, tt.Bin(OpOr, shl(z(b0, 0x07), 18), shl(z(b1, 0x3F), 12)), tt.Bin(OpOr, shl(z(b2, 0x3F), 6), z(b3, 0x3F)))
	return ret(r), 4
}

func (in *Interp) cmpInf(op token.Token, x, y Value) (Value, bool) {
	xf, xok := x.(float64)
	yf, yok := y.(float64)
	xi := xok && math.IsInf(xf, 0)
	yi := yok && math.IsInf(yf, 0)
	if !xi && !yi {
		return nil, false
	}
	// the other operand is a finite symbolic value
	var inf float64
	swap := false
	if xi {
		inf = xf
		swap = true
	} else {
		inf = yf
	}
	pos := inf > 0
	// result of (finite OP inf)
	var r bool
	switch op {
	case token.EQL:
		r = false
	case token.NEQ:
		r = true
	case token.LSS, token.LEQ:
		r = pos
		if swap {
			r = !pos
		}
	case token.GTR, token.GEQ:
		r = !pos
		if swap {
			r = pos
		}
	default:
		return nil, false
	}
	return r, true
}
