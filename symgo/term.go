package symgo

import (
	"fmt"
	"math/big"
	"math/bits"
	"strings"
)

// Sorts: 0 = Bool, 1..64 = bit-vector of that width, SortReal = Real, SortInt = Int.
const (
	SortBool uint8 = 0
	SortReal uint8 = 200
	SortInt  uint8 = 201
)

type Op uint8

const (
	OpConst Op = iota // K = value (bool: 0/1)
	OpVar             // Name
	OpAdd
	OpSub
	OpMul
	OpUDiv
	OpSDiv
	OpURem
	OpSRem
	OpAnd
	OpOr
	OpXor
	OpNot // bitwise not (bv) / logical not (bool)
	OpNeg
	OpShl
	OpLShr
	OpAShr
	OpZExt    // A[0] extended to W
	OpSExt    // A[0] sign-extended to W
	OpExtract // K = lo bit; result width W
	OpEq
	OpULt
	OpULe
	OpSLt
	OpSLe
	OpBAnd // boolean and
	OpBOr
	OpIte
	// Real/Int
	OpRConst // Name = rational string
	OpRAdd
	OpRSub
	OpRMul
	OpRDiv
	OpRLt
	OpRLe
	OpBV2Int  // unsigned value of bv as Int (sort Int)
	OpSBV2Int // signed value of bv as Int
	OpI2R     // Int -> Real
	OpR2I     // Real -> Int, truncation toward zero
	OpInt2BV  // Int -> BV(W)
	OpIConst  // Int constant: Name
	OpIAdd
	OpISub
	OpIMul
	OpILt
	OpILe
)

type Term struct {
	Op   Op
	W    uint8
	A    [3]*Term
	N    uint8
	K    uint64
	Name string
	ID   int
}

type termKey struct {
	op         Op
	w          uint8
	k          uint64
	a0, a1, a2 int
	name       string
}

// TermTable hash-conses terms. One per worker (not thread-safe).
type TermTable struct {
	m           map[termKey]*Term
	next        int
	True, False *Term
}

func NewTermTable() *TermTable {
	tt := &TermTable{m: map[termKey]*Term{}}
	tt.True = tt.mk(OpConst, SortBool, 1, "", nil, nil, nil)
	tt.False = tt.mk(OpConst, SortBool, 0, "", nil, nil, nil)
	return tt
}

func (tt *TermTable) mk(op Op, w uint8, k uint64, name string, a0, a1, a2 *Term) *Term {
	key := termKey{op: op, w: w, k: k, name: name, a0: -1, a1: -1, a2: -1}
	n := uint8(0)
	if a0 != nil {
		key.a0 = a0.ID
		n = 1
	}
	if a1 != nil {
		key.a1 = a1.ID
		n = 2
	}
	if a2 != nil {
		key.a2 = a2.ID
		n = 3
	}
	if t, ok := tt.m[key]; ok {
		return t
	}
	t := &Term{Op: op, W: w, K: k, Name: name, N: n, ID: tt.next}
	t.A[0], t.A[1], t.A[2] = a0, a1, a2
	tt.next++
	tt.m[key] = t
	return t
}

func mask(w uint8) uint64 {
	if w >= 64 {
		return ^uint64(0)
	}
	return (uint64(1) << w) - 1
}

func sext(v uint64, w uint8) int64 {
	if w >= 64 {
		return int64(v)
	}
	sh := 64 - uint(w)
	return int64(v<<sh) >> sh
}

func (t *Term) IsConst() bool { return t.Op == OpConst }
func (t *Term) IsBool() bool  { return t.W == SortBool }

func (tt *TermTable) Const(w uint8, v uint64) *Term {
	if w == SortBool {
		if v != 0 {
			return tt.True
		}
		return tt.False
	}
	return tt.mk(OpConst, w, v&mask(w), "", nil, nil, nil)
}

func (tt *TermTable) Bool(b bool) *Term {
	if b {
		return tt.True
	}
	return tt.False
}

func (tt *TermTable) Var(name string, w uint8) *Term {
	return tt.mk(OpVar, w, 0, name, nil, nil, nil)
}

func (tt *TermTable) RConst(r *big.Rat) *Term {
	return tt.mk(OpRConst, SortReal, 0, r.RatString(), nil, nil, nil)
}

func (tt *TermTable) IConst(v int64) *Term {
	return tt.mk(OpIConst, SortInt, 0, fmt.Sprint(v), nil, nil, nil)
}

// Bin builds a binary bit-vector arithmetic/logic term with folding.
func (tt *TermTable) Bin(op Op, a, b *Term) *Term {
	w := a.W
	if a.W != b.W {
		panic(fmt.Sprintf("term width mismatch %d %d op %d", a.W, b.W, op))
	}
	if a.IsConst() && b.IsConst() {
		if v, ok := foldBin(op, a.K, b.K, w); ok {
			return tt.Const(w, v)
		}
	}
	m := mask(w)
	// narrow unsigned arithmetic whose result provably fits in far fewer bits
	if (op == OpAdd || op == OpMul) && w >= 32 && w <= 64 {
		ua, ub := ubound(a), ubound(b)
		var res uint64
		ok := false
		if op == OpAdd {
			s, c := bits.Add64(ua, ub, 0)
			res, ok = s, c == 0
		} else {
			hi, lo := bits.Mul64(ua, ub)
			res, ok = lo, hi == 0
		}
		if ok && res < m>>8 && !(a.IsConst() && b.IsConst()) {
			nw := uint8(bits.Len64(res))
			if nw < 8 {
				nw = 8
			}
			if nw+8 <= w {
				return tt.ZExt(tt.Bin(op, tt.Extract(a, 0, nw), tt.Extract(b, 0, nw)), w)
			}
		}
	}
	switch op {
	case OpAdd:
		if a.IsConst() && a.K == 0 {
			return b
		}
		if b.IsConst() && b.K == 0 {
			return a
		}
		if a.IsConst() { // canonical: const on the right
			a, b = b, a
		}
		// (x + c1) + c2
		if b.IsConst() && a.Op == OpAdd && a.A[1].IsConst() {
			return tt.Bin(OpAdd, a.A[0], tt.Const(w, a.A[1].K+b.K))
		}
	case OpSub:
		if b.IsConst() && b.K == 0 {
			return a
		}
		if a == b {
			return tt.Const(w, 0)
		}
		if b.IsConst() {
			return tt.Bin(OpAdd, a, tt.Const(w, -b.K))
		}
	case OpMul:
		if a.IsConst() {
			a, b = b, a
		}
		if b.IsConst() {
			if b.K == 0 {
				return b
			}
			if b.K == 1 {
				return a
			}
		}
	case OpAnd:
		if a.IsConst() {
			a, b = b, a
		}
		if b.IsConst() {
			if b.K == 0 {
				return b
			}
			if b.K == m {
				return a
			}
		}
		if a == b {
			return a
		}
	case OpOr:
		if a.IsConst() {
			a, b = b, a
		}
		if b.IsConst() {
			if b.K == 0 {
				return a
			}
			if b.K == m {
				return b
			}
		}
		if a == b {
			return a
		}
	case OpXor:
		if a.IsConst() {
			a, b = b, a
		}
		if b.IsConst() && b.K == 0 {
			return a
		}
		if a == b {
			return tt.Const(w, 0)
		}
	case OpShl, OpLShr, OpAShr:
		if b.IsConst() && b.K == 0 {
			return a
		}
	case OpUDiv, OpSDiv:
		if b.IsConst() && b.K == 1 {
			return a
		}
	}
	return tt.mk(op, w, 0, "", a, b, nil)
}

func foldBin(op Op, x, y uint64, w uint8) (uint64, bool) {
	m := mask(w)
	switch op {
	case OpAdd:
		return (x + y) & m, true
	case OpSub:
		return (x - y) & m, true
	case OpMul:
		return (x * y) & m, true
	case OpUDiv:
		if y == 0 {
			return m, true // SMT-LIB semantics
		}
		return x / y, true
	case OpURem:
		if y == 0 {
			return x, true
		}
		return x % y, true
	case OpSDiv:
		sx, sy := sext(x, w), sext(y, w)
		if sy == 0 {
			if sx >= 0 {
				return m, true
			}
			return 1, true
		}
		if sy == -1 {
			return uint64(-sx) & m, true
		}
		return uint64(sx/sy) & m, true
	case OpSRem:
		sx, sy := sext(x, w), sext(y, w)
		if sy == 0 {
			return x, true
		}
		if sy == -1 {
			return 0, true
		}
		return uint64(sx%sy) & m, true
	case OpAnd:
		return x & y, true
	case OpOr:
		return x | y, true
	case OpXor:
		return x ^ y, true
	case OpShl:
		if y >= uint64(w) {
			return 0, true
		}
		return (x << y) & m, true
	case OpLShr:
		if y >= uint64(w) {
			return 0, true
		}
		return x >> y, true
	case OpAShr:
		sx := sext(x, w)
		if y >= uint64(w) {
			y = uint64(w) - 1
		}
		return uint64(sx>>y) & m, true
	}
	return 0, false
}

func (tt *TermTable) BVNot(a *Term) *Term {
	if a.IsConst() {
		return tt.Const(a.W, ^a.K)
	}
	if a.Op == OpNot && !a.IsBool() {
		return a.A[0]
	}
	return tt.mk(OpNot, a.W, 0, "", a, nil, nil)
}

func (tt *TermTable) Neg(a *Term) *Term {
	if a.IsConst() {
		return tt.Const(a.W, -a.K)
	}
	return tt.mk(OpNeg, a.W, 0, "", a, nil, nil)
}

func (tt *TermTable) ZExt(a *Term, w uint8) *Term {
	if a.W == w {
		return a
	}
	if a.W > w {
		return tt.Extract(a, 0, w)
	}
	if a.IsConst() {
		return tt.Const(w, a.K)
	}
	if a.Op == OpZExt {
		return tt.ZExt(a.A[0], w)
	}
	return tt.mk(OpZExt, w, 0, "", a, nil, nil)
}

func (tt *TermTable) SExt(a *Term, w uint8) *Term {
	if a.W == w {
		return a
	}
	if a.W > w {
		return tt.Extract(a, 0, w)
	}
	if a.IsConst() {
		return tt.Const(w, uint64(sext(a.K, a.W)))
	}
	if a.Op == OpZExt { // sign bit known zero
		return tt.ZExt(a.A[0], w)
	}
	return tt.mk(OpSExt, w, 0, "", a, nil, nil)
}

// Extract bits [lo, lo+w) of a. Descends structurally through zero-extension, bitwise
// operations and constant shifts (bit-slice tracking), so that packing and unpacking of
// fields (colours, attribute masks) reduces to the original narrow terms.
func (tt *TermTable) Extract(a *Term, lo uint8, w uint8) *Term {
	if lo == 0 && w == a.W {
		return a
	}
	if a.IsConst() {
		return tt.Const(w, a.K>>lo)
	}
	switch a.Op {
	case OpZExt, OpSExt:
		in := a.A[0]
		if uint(lo)+uint(w) <= uint(in.W) {
			return tt.Extract(in, lo, w)
		}
		if a.Op == OpZExt && lo >= in.W {
			return tt.Const(w, 0)
		}
		if lo == 0 {
			if a.Op == OpZExt {
				return tt.ZExt(in, w)
			}
			return tt.SExt(in, w)
		}
		if a.Op == OpZExt && lo < in.W {
			// low part from in, rest zero
			return tt.ZExt(tt.Extract(in, lo, in.W-lo), w)
		}
	case OpExtract:
		return tt.Extract(a.A[0], lo+uint8(a.K), w)
	case OpAnd, OpOr, OpXor:
		return tt.Bin(a.Op, tt.Extract(a.A[0], lo, w), tt.Extract(a.A[1], lo, w))
	case OpNot:
		if !a.IsBool() {
			return tt.BVNot(tt.Extract(a.A[0], lo, w))
		}
	case OpIte:
		return tt.Ite(a.A[0], tt.Extract(a.A[1], lo, w), tt.Extract(a.A[2], lo, w))
	case OpShl:
		if k := a.A[1]; k.IsConst() && k.K < uint64(a.W) {
			sh := uint8(k.K)
			if lo >= sh {
				return tt.Extract(a.A[0], lo-sh, w)
			}
			if uint(lo)+uint(w) <= uint(sh) {
				return tt.Const(w, 0)
			}
		}
	case OpLShr:
		if k := a.A[1]; k.IsConst() && k.K < uint64(a.W) {
			sh := uint8(k.K)
			if uint(lo)+uint(sh)+uint(w) <= uint(a.W) {
				return tt.Extract(a.A[0], lo+sh, w)
			}
			if uint(lo)+uint(sh) >= uint(a.W) {
				return tt.Const(w, 0)
			}
		}
	}
	if lo == 0 {
		// push truncation through ring operations
		switch a.Op {
		case OpAdd, OpSub, OpMul:
			return tt.Bin(a.Op, tt.Extract(a.A[0], 0, w), tt.Extract(a.A[1], 0, w))
		case OpNeg:
			return tt.Neg(tt.Extract(a.A[0], 0, w))
		}
	}
	return tt.mk(OpExtract, w, uint64(lo), "", a, nil, nil)
}

// upper bound (unsigned) of a term if cheaply known, else mask.
func ubound(t *Term) uint64 {
	switch t.Op {
	case OpConst:
		return t.K
	case OpZExt:
		return ubound(t.A[0])
	case OpAnd:
		a, b := ubound(t.A[0]), ubound(t.A[1])
		if a < b {
			return a
		}
		return b
	case OpIte:
		a, b := ubound(t.A[1]), ubound(t.A[2])
		if a > b {
			return a
		}
		return b
	case OpLShr:
		if t.A[1].IsConst() && t.A[1].K < 64 {
			return ubound(t.A[0]) >> t.A[1].K
		}
	case OpAdd:
		a, b := ubound(t.A[0]), ubound(t.A[1])
		if s, c := bits.Add64(a, b, 0); c == 0 && s <= mask(t.W) {
			return s
		}
	case OpMul:
		a, b := ubound(t.A[0]), ubound(t.A[1])
		if hi, lo := bits.Mul64(a, b); hi == 0 && lo <= mask(t.W) {
			return lo
		}
	case OpURem:
		if t.A[1].IsConst() && t.A[1].K > 0 {
			return t.A[1].K - 1
		}
	}
	return mask(t.W)
}

func (tt *TermTable) Cmp(op Op, a, b *Term) *Term {
	if a.W != b.W {
		panic(fmt.Sprintf("cmp width mismatch %d %d", a.W, b.W))
	}
	w := a.W
	if a.IsConst() && b.IsConst() {
		var r bool
		switch op {
		case OpEq:
			r = a.K == b.K
		case OpULt:
			r = a.K < b.K
		case OpULe:
			r = a.K <= b.K
		case OpSLt:
			r = sext(a.K, w) < sext(b.K, w)
		case OpSLe:
			r = sext(a.K, w) <= sext(b.K, w)
		}
		return tt.Bool(r)
	}
	if a == b {
		switch op {
		case OpEq, OpULe, OpSLe:
			return tt.True
		default:
			return tt.False
		}
	}
	if w != SortBool && w <= 64 && a.Op == OpZExt && (b.Op == OpZExt || b.IsConst()) {
		// compare at the narrowest sufficient width
		nw := a.A[0].W
		if b.Op == OpZExt && b.A[0].W > nw {
			nw = b.A[0].W
		}
		if b.IsConst() && b.K > mask(nw) {
			nw = w
		}
		if nw < w {
			uop := op
			if op == OpSLt {
				uop = OpULt
			} else if op == OpSLe {
				uop = OpULe
			}
			return tt.Cmp(uop, tt.Extract(a, 0, nw), tt.Extract(b, 0, nw))
		}
	}
	if w != SortBool && w <= 64 && b.Op == OpZExt && a.IsConst() && a.K <= mask(b.A[0].W) {
		nw := b.A[0].W
		uop := op
		if op == OpSLt {
			uop = OpULt
		} else if op == OpSLe {
			uop = OpULe
		}
		return tt.Cmp(uop, tt.Const(nw, a.K), b.A[0])
	}
	if w != SortBool && w <= 64 {
		ua, ub := ubound(a), ubound(b)
		switch op {
		case OpEq:
			if a.IsConst() && a.K > ub || b.IsConst() && b.K > ua {
				return tt.False
			}
			// eq over zext of same width sources
			if a.Op == OpZExt && b.Op == OpZExt && a.A[0].W == b.A[0].W {
				return tt.Cmp(OpEq, a.A[0], b.A[0])
			}
			if a.Op == OpZExt && b.IsConst() && b.K <= mask(a.A[0].W) {
				return tt.Cmp(OpEq, a.A[0], tt.Const(a.A[0].W, b.K))
			}
			if b.Op == OpZExt && a.IsConst() && a.K <= mask(b.A[0].W) {
				return tt.Cmp(OpEq, b.A[0], tt.Const(b.A[0].W, a.K))
			}
			// ite(c, k1, k2) == k
			if a.Op == OpIte && b.IsConst() && a.A[1].IsConst() && a.A[2].IsConst() {
				e1, e2 := a.A[1].K == b.K, a.A[2].K == b.K
				switch {
				case e1 && e2:
					return tt.True
				case e1:
					return a.A[0]
				case e2:
					return tt.Not(a.A[0])
				default:
					return tt.False
				}
			}
		case OpULt:
			if b.IsConst() && ua < b.K {
				return tt.True
			}
			if b.IsConst() && b.K == 0 {
				return tt.False
			}
			if a.IsConst() && a.K >= ub {
				return tt.False
			}
		case OpULe:
			if b.IsConst() && ua <= b.K {
				return tt.True
			}
			if a.IsConst() && a.K == 0 {
				return tt.True
			}
			if a.IsConst() && a.K > ub {
				return tt.False
			}
		case OpSLt, OpSLe:
			// both known non-negative: same as unsigned
			half := mask(w) >> 1
			if ua <= half && ub <= half {
				if op == OpSLt {
					return tt.Cmp(OpULt, a, b)
				}
				return tt.Cmp(OpULe, a, b)
			}
		}
	}
	if w == SortBool && op == OpEq {
		if a.IsConst() {
			a, b = b, a
		}
		if b.IsConst() {
			if b.K == 1 {
				return a
			}
			return tt.Not(a)
		}
	}
	if op == OpEq && a.ID > b.ID {
		a, b = b, a
	}
	return tt.mk(op, SortBool, 0, "", a, b, nil)
}

func (tt *TermTable) Not(a *Term) *Term {
	if !a.IsBool() {
		panic("Not on non-bool")
	}
	if a.IsConst() {
		return tt.Bool(a.K == 0)
	}
	if a.Op == OpNot {
		return a.A[0]
	}
	return tt.mk(OpNot, SortBool, 0, "", a, nil, nil)
}

func (tt *TermTable) And(a, b *Term) *Term {
	if a.IsConst() {
		if a.K == 0 {
			return a
		}
		return b
	}
	if b.IsConst() {
		if b.K == 0 {
			return b
		}
		return a
	}
	if a == b {
		return a
	}
	if a.Op == OpNot && a.A[0] == b || b.Op == OpNot && b.A[0] == a {
		return tt.False
	}
	return tt.mk(OpBAnd, SortBool, 0, "", a, b, nil)
}

func (tt *TermTable) Or(a, b *Term) *Term {
	if a.IsConst() {
		if a.K == 1 {
			return a
		}
		return b
	}
	if b.IsConst() {
		if b.K == 1 {
			return b
		}
		return a
	}
	if a == b {
		return a
	}
	if a.Op == OpNot && a.A[0] == b || b.Op == OpNot && b.A[0] == a {
		return tt.True
	}
	return tt.mk(OpBOr, SortBool, 0, "", a, b, nil)
}

func (tt *TermTable) Ite(c, a, b *Term) *Term {
	if c.IsConst() {
		if c.K != 0 {
			return a
		}
		return b
	}
	if a == b {
		return a
	}
	if a.W != b.W {
		panic(fmt.Sprintf("ite sort mismatch %d %d", a.W, b.W))
	}
	if a.W == SortBool {
		if a.IsConst() && b.IsConst() {
			if a.K == 1 {
				return c
			}
			return tt.Not(c)
		}
		if a.IsConst() {
			if a.K == 1 {
				return tt.Or(c, b)
			}
			return tt.And(tt.Not(c), b)
		}
		if b.IsConst() {
			if b.K == 0 {
				return tt.And(c, a)
			}
			return tt.Or(tt.Not(c), a)
		}
	}
	if c.Op == OpNot {
		return tt.Ite(c.A[0], b, a)
	}
	return tt.mk(OpIte, a.W, 0, "", c, a, b)
}

// Real / Int helpers
func (tt *TermTable) RBin(op Op, a, b *Term) *Term {
	if a.Op == OpRConst && b.Op == OpRConst {
		x, _ := new(big.Rat).SetString(a.Name)
		y, _ := new(big.Rat).SetString(b.Name)
		switch op {
		case OpRAdd:
			return tt.RConst(new(big.Rat).Add(x, y))
		case OpRSub:
			return tt.RConst(new(big.Rat).Sub(x, y))
		case OpRMul:
			return tt.RConst(new(big.Rat).Mul(x, y))
		case OpRDiv:
			if y.Sign() != 0 {
				return tt.RConst(new(big.Rat).Quo(x, y))
			}
		case OpRLt:
			return tt.Bool(x.Cmp(y) < 0)
		case OpRLe:
			return tt.Bool(x.Cmp(y) <= 0)
		case OpEq:
			return tt.Bool(x.Cmp(y) == 0)
		}
	}
	w := SortReal
	if op == OpRLt || op == OpRLe || op == OpEq {
		w = SortBool
	}
	return tt.mk(op, w, 0, "", a, b, nil)
}

func (tt *TermTable) IBin(op Op, a, b *Term) *Term {
	w := SortInt
	if op == OpILt || op == OpILe || op == OpEq {
		w = SortBool
	}
	return tt.mk(op, w, 0, "", a, b, nil)
}

func (tt *TermTable) Un(op Op, w uint8, a *Term) *Term {
	return tt.mk(op, w, 0, "", a, nil, nil)
}

// ---------------------------------------------------------------- evaluation

type Model map[string]*big.Rat // bv/bool values are integers

func (m Model) Clone() Model {
	n := make(Model, len(m))
	for k, v := range m {
		n[k] = v
	}
	return n
}

type evalCache map[*Term]*big.Rat

var ratZero = new(big.Rat)

func ratU(v uint64) *big.Rat { return new(big.Rat).SetInt(new(big.Int).SetUint64(v)) }

// EvalU evaluates a Bool/BV term to uint64 under the model (absent vars = 0).
func EvalU(t *Term, m Model, c evalCache) uint64 {
	if t.W == SortReal || t.W == SortInt {
		panic("EvalU on real")
	}
	r := Eval(t, m, c)
	if !r.IsInt() {
		panic("non-int bv value")
	}
	return r.Num().Uint64()
}

func Eval(t *Term, m Model, c evalCache) *big.Rat {
	if v, ok := c[t]; ok {
		return v
	}
	v := eval1(t, m, c)
	c[t] = v
	return v
}

func eval1(t *Term, m Model, c evalCache) *big.Rat {
	u := func(i int) uint64 { return EvalU(t.A[i], m, c) }
	b2r := func(b bool) *big.Rat {
		if b {
			return ratU(1)
		}
		return ratZero
	}
	switch t.Op {
	case OpConst:
		return ratU(t.K)
	case OpVar:
		if v, ok := m[t.Name]; ok {
			return v
		}
		return ratZero
	case OpRConst:
		r, _ := new(big.Rat).SetString(t.Name)
		return r
	case OpIConst:
		r, _ := new(big.Rat).SetString(t.Name)
		return r
	case OpAdd, OpSub, OpMul, OpUDiv, OpSDiv, OpURem, OpSRem, OpAnd, OpOr, OpXor, OpShl, OpLShr, OpAShr:
		v, _ := foldBin(t.Op, u(0), u(1), t.W)
		return ratU(v)
	case OpNot:
		if t.IsBool() {
			return b2r(u(0) == 0)
		}
		return ratU(^u(0) & mask(t.W))
	case OpNeg:
		return ratU(-u(0) & mask(t.W))
	case OpZExt:
		return ratU(u(0))
	case OpSExt:
		return ratU(uint64(sext(u(0), t.A[0].W)) & mask(t.W))
	case OpExtract:
		return ratU((u(0) >> t.K) & mask(t.W))
	case OpEq:
		if t.A[0].W == SortReal || t.A[0].W == SortInt {
			return b2r(Eval(t.A[0], m, c).Cmp(Eval(t.A[1], m, c)) == 0)
		}
		return b2r(u(0) == u(1))
	case OpULt:
		return b2r(u(0) < u(1))
	case OpULe:
		return b2r(u(0) <= u(1))
	case OpSLt:
		return b2r(sext(u(0), t.A[0].W) < sext(u(1), t.A[0].W))
	case OpSLe:
		return b2r(sext(u(0), t.A[0].W) <= sext(u(1), t.A[0].W))
	case OpBAnd:
		return b2r(u(0) != 0 && u(1) != 0)
	case OpBOr:
		return b2r(u(0) != 0 || u(1) != 0)
	case OpIte:
		if u(0) != 0 {
			return Eval(t.A[1], m, c)
		}
		return Eval(t.A[2], m, c)
	case OpRAdd, OpIAdd:
		return new(big.Rat).Add(Eval(t.A[0], m, c), Eval(t.A[1], m, c))
	case OpRSub, OpISub:
		return new(big.Rat).Sub(Eval(t.A[0], m, c), Eval(t.A[1], m, c))
	case OpRMul, OpIMul:
		return new(big.Rat).Mul(Eval(t.A[0], m, c), Eval(t.A[1], m, c))
	case OpRDiv:
		d := Eval(t.A[1], m, c)
		if d.Sign() == 0 {
			return ratZero
		}
		return new(big.Rat).Quo(Eval(t.A[0], m, c), d)
	case OpRLt, OpILt:
		return b2r(Eval(t.A[0], m, c).Cmp(Eval(t.A[1], m, c)) < 0)
	case OpRLe, OpILe:
		return b2r(Eval(t.A[0], m, c).Cmp(Eval(t.A[1], m, c)) <= 0)
	case OpBV2Int:
		return ratU(u(0))
	case OpSBV2Int:
		return new(big.Rat).SetInt64(sext(u(0), t.A[0].W))
	case OpI2R:
		return Eval(t.A[0], m, c)
	case OpR2I:
		r := Eval(t.A[0], m, c)
		q := new(big.Int).Quo(r.Num(), r.Denom()) // truncates toward zero
		return new(big.Rat).SetInt(q)
	case OpInt2BV:
		r := Eval(t.A[0], m, c)
		mod := new(big.Int).Lsh(big.NewInt(1), uint(t.W))
		z := new(big.Int).Mod(r.Num(), mod)
		return new(big.Rat).SetInt(z)
	}
	panic(fmt.Sprintf("eval: op %d", t.Op))
}

// ---------------------------------------------------------------- SMT-LIB printing

func sortStr(w uint8) string {
	switch w {
	case SortBool:
		return "Bool"
	case SortReal:
		return "Real"
	case SortInt:
		return "Int"
	}
	return fmt.Sprintf("(_ BitVec %d)", w)
}

func bvLit(w uint8, v uint64) string {
	if w%4 == 0 {
		return fmt.Sprintf("#x%0*x", int(w/4), v&mask(w))
	}
	return fmt.Sprintf("#b%0*b", int(w), v&mask(w))
}

var opNames = map[Op]string{
	OpAdd: "bvadd", OpSub: "bvsub", OpMul: "bvmul", OpUDiv: "bvudiv", OpSDiv: "bvsdiv",
	OpURem: "bvurem", OpSRem: "bvsrem", OpAnd: "bvand", OpOr: "bvor", OpXor: "bvxor",
	OpShl: "bvshl", OpLShr: "bvlshr", OpAShr: "bvashr", OpNeg: "bvneg",
	OpULt: "bvult", OpULe: "bvule", OpSLt: "bvslt", OpSLe: "bvsle",
	OpBAnd: "and", OpBOr: "or", OpIte: "ite", OpEq: "=",
	OpRAdd: "+", OpRSub: "-", OpRMul: "*", OpRDiv: "/", OpRLt: "<", OpRLe: "<=",
	OpIAdd: "+", OpISub: "-", OpIMul: "*", OpILt: "<", OpILe: "<=",
	OpI2R: "to_real",
}

func smtName(name string) string { return "|" + name + "|" }

func ratSMT(s string) string {
	r, _ := new(big.Rat).SetString(s)
	neg := r.Sign() < 0
	if neg {
		r = new(big.Rat).Neg(r)
	}
	var out string
	if r.IsInt() {
		out = r.Num().String() + ".0"
	} else {
		out = "(/ " + r.Num().String() + ".0 " + r.Denom().String() + ".0)"
	}
	if neg {
		out = "(- " + out + ")"
	}
	return out
}

// ref returns the textual reference to a term (its name if defined, literal if const).
func termRef(t *Term) string {
	switch t.Op {
	case OpConst:
		if t.IsBool() {
			if t.K != 0 {
				return "true"
			}
			return "false"
		}
		return bvLit(t.W, t.K)
	case OpVar:
		return smtName(t.Name)
	case OpRConst:
		return ratSMT(t.Name)
	case OpIConst:
		if strings.HasPrefix(t.Name, "-") {
			return "(- " + t.Name[1:] + ")"
		}
		return t.Name
	}
	return fmt.Sprintf("t%d", t.ID)
}

func termBody(t *Term) string {
	a := func(i int) string { return termRef(t.A[i]) }
	switch t.Op {
	case OpNot:
		if t.IsBool() {
			return "(not " + a(0) + ")"
		}
		return "(bvnot " + a(0) + ")"
	case OpZExt:
		return fmt.Sprintf("((_ zero_extend %d) %s)", t.W-t.A[0].W, a(0))
	case OpSExt:
		return fmt.Sprintf("((_ sign_extend %d) %s)", t.W-t.A[0].W, a(0))
	case OpExtract:
		return fmt.Sprintf("((_ extract %d %d) %s)", int(t.K)+int(t.W)-1, t.K, a(0))
	case OpBV2Int:
		return "(bv2int " + a(0) + ")"
	case OpSBV2Int:
		w := t.A[0].W
		return fmt.Sprintf("(ite (bvslt %s %s) (- (bv2int %s) %s) (bv2int %s))", a(0), bvLit(w, 0), a(0),
			new(big.Int).Lsh(big.NewInt(1), uint(w)).String(), a(0))
	case OpR2I:
		// truncation toward zero
		return fmt.Sprintf("(ite (>= %s 0.0) (to_int %s) (- (to_int (- %s))))", a(0), a(0), a(0))
	case OpInt2BV:
		return fmt.Sprintf("((_ int2bv %d) %s)", t.W, a(0))
	}
	name, ok := opNames[t.Op]
	if !ok {
		panic(fmt.Sprintf("smt: op %d", t.Op))
	}
	var sb strings.Builder
	sb.WriteString("(" + name)
	for i := 0; i < int(t.N); i++ {
		sb.WriteString(" " + a(i))
	}
	sb.WriteString(")")
	return sb.String()
}

func isLeaf(t *Term) bool {
	return t.Op == OpConst || t.Op == OpVar || t.Op == OpRConst || t.Op == OpIConst
}

// String renders a term for debugging (tree form, truncated).
func (t *Term) String() string {
	var sb strings.Builder
	var rec func(t *Term, d int)
	rec = func(t *Term, d int) {
		if sb.Len() > 600 {
			sb.WriteString("...")
			return
		}
		if isLeaf(t) {
			sb.WriteString(termRef(t))
			return
		}
		if d > 8 {
			sb.WriteString(fmt.Sprintf("t%d", t.ID))
			return
		}
		n, ok := opNames[t.Op]
		if !ok {
			n = fmt.Sprintf("op%d/%d/%d", t.Op, t.W, t.K)
		}
		sb.WriteString("(" + n)
		for i := 0; i < int(t.N); i++ {
			sb.WriteString(" ")
			rec(t.A[i], d+1)
		}
		sb.WriteString(")")
	}
	rec(t, 0)
	return sb.String()
}
