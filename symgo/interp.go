package symgo

import (
	"fmt"
	"go/constant"
	"go/token"
	"go/types"
	"os"
	"strings"
	"time"

	"golang.org/x/tools/go/ssa"
)

// ---------------------------------------------------------------- control-flow sentinels

// pathEnd terminates the current path (not a Go-level panic of the program).
type pathEnd struct {
	kind string // "infeasible", "unwind", "unsupported", "unknown", "steps", "deadlock", "done"
	msg  string
}

// sigReg is one os/signal.Notify registration.
type sigReg struct {
	ch   *Chan
	sigs []uint64
}

// goPanic is a panic of the interpreted program.
type goPanic struct {
	val   Value
	msg   string
	pos   string
	stack string
}

type engineError struct{ msg string }

var traceOn = os.Getenv("VERIF_TRACE") != ""
var traceInstr = os.Getenv("VERIF_TRACE") == "2"

func engineErr(f string, a ...interface{}) {
	panic(engineError{fmt.Sprintf(f, a...)})
}

type Decision struct {
	K byte
	V uint64
}

const (
	dBranch = 'b'
	dConc   = 'c'
	dOblig  = 'o'
	dAssume = 'a'
)

type deferred struct {
	fn   Value
	args []Value
	site ssa.CallInstruction
}

type frame struct {
	in        *Interp
	caller    *frame
	fn        *ssa.Function
	block     *ssa.BasicBlock
	prev      *ssa.BasicBlock
	env       map[ssa.Value]Value
	defers    []deferred
	result    Value
	panicking bool
	panicVal  *goPanic
	loops     map[*ssa.BasicBlock]int
	site      ssa.CallInstruction
	phiDone   *ssa.BasicBlock
}

type knownRegion struct {
	id   string
	cond *Term
}

type Interp struct {
	prog       *ssa.Program
	tt         *TermTable
	sol        *Solver
	globals    map[*ssa.Global]*Value
	consts     map[*ssa.Const]Value
	methods    map[types.Type]map[string]*ssa.Function
	implCache  map[[2]types.Type]bool
	intrinsics map[string]intrinsic
	fnIntr     map[*ssa.Function]intrinsic
	fnIntrNo   map[*ssa.Function]bool
	repoPkgs   []*ssa.Package
	mainPkg    *ssa.Package
	ex         *Explorer

	// per-path state
	prefix     []Decision
	dpos       int
	path       []Decision
	model      Model
	evc        evalCache
	inputs     []*Term
	inputCnt   map[string]int
	pcLen      int
	known      []knownRegion
	observes   []observed
	reached    map[string]bool
	steps      int
	backEdges  int
	termBudget int // >0: Terminates obligation
	termBase   int
	unwind     int
	files      map[*Value]*[]Value // pty stubs etc.
	timers     []*timerRec
	vnow       int64                  // virtual clock (ns), advanced when timers fire
	mutexes    map[*Value]*mutexState // lock state of sync.Mutex / RWMutex values
	sigRegs    []sigReg               // os/signal.Notify registrations (channel, signal numbers; none = all)
	env        map[string]string
	depth      int
	curFrame   *frame
	pathStats  PathStats
	chanSeq    int
	spec       bool
	pdoms      map[*ssa.Function][]int
	merges     map[*ssa.BasicBlock]*mergeInfo
	onceDone   map[*Value]bool
	pools      map[*Value][]Value
	gors       []*gor
	cur        *gor
	abort      interface{}
	killing    bool
	lastPanic  *goPanic
	curInstr   ssa.Instruction
	asserted   map[*Term]bool
	pc         []*Term
	initSteps  int
}

func (in *Interp) instrString() string {
	if in.curInstr == nil {
		return ""
	}
	s := in.curInstr.String()
	if v, ok := in.curInstr.(ssa.Value); ok {
		s = v.Name() + " = " + s
	}
	if in.curInstr.Parent() != nil {
		s += " in " + in.curInstr.Parent().String()
		s += " @ " + in.prog.Fset.Position(in.curInstr.Pos()).String()
	}
	return s
}

type observed struct {
	label string
	val   Iface
}

type PathStats struct {
	Pruned    int
	Decisions int
	Queries   int
	Steps     int
}

// ---------------------------------------------------------------- decisions

func (in *Interp) resetEval() { in.evc = evalCache{} }

func (in *Interp) needModel() {
	if in.model != nil {
		return
	}
	res, m, err := in.check(nil, in.inputs)
	if err != nil {
		panic(pathEnd{"unknown", err.Error()})
	}
	switch res {
	case Sat:
		in.model = m
		in.resetEval()
	case Unsat:
		panic(pathEnd{"infeasible", ""})
	default:
		panic(pathEnd{"unknown", "no model for path prefix"})
	}
}

// check asks z3 (incrementally, under the asserted path condition); when z3 gives up it
// re-decides the query from scratch with cvc5's integer encoding.
func (in *Interp) check(extra []*Term, vars []*Term) (SatResult, Model, error) {
	res, m, err := in.sol.Check(extra, vars)
	if res != Unknown {
		return res, m, err
	}
	all := make([]*Term, 0, len(in.pc)+len(extra))
	all = append(all, in.pc...)
	all = append(all, extra...)
	r2, m2, e2 := Fallback(all, vars, time.Duration(in.ex.cfg.FallbackTimeoutS)*time.Second)
	in.ex.noteFallback(r2)
	if r2 != Unknown {
		return r2, m2, nil
	}
	_ = e2
	return res, m, err
}

func (in *Interp) assertPC(c *Term) {
	in.sol.Assert(c)
	in.pc = append(in.pc, c)
	in.pcLen++
	in.noteAsserted(c)
}

// noteAsserted records asserted literals (splitting conjunctions) for syntactic pruning.
func (in *Interp) noteAsserted(c *Term) {
	if c.Op == OpBAnd {
		in.noteAsserted(c.A[0])
		in.noteAsserted(c.A[1])
		return
	}
	if c.Op == OpNot && c.A[0].Op == OpBOr {
		in.noteAsserted(in.tt.Not(c.A[0].A[0]))
		in.noteAsserted(in.tt.Not(c.A[0].A[1]))
		return
	}
	in.asserted[c] = true
}

// impliedBy reports whether c is syntactically implied by the asserted literals.
func (in *Interp) implied(c *Term) bool {
	if in.asserted[c] {
		return true
	}
	switch c.Op {
	case OpBAnd:
		return in.implied(c.A[0]) && in.implied(c.A[1])
	case OpBOr:
		return in.implied(c.A[0]) || in.implied(c.A[1])
	case OpNot:
		x := c.A[0]
		switch x.Op {
		case OpBAnd:
			return in.implied(in.tt.Not(x.A[0])) || in.implied(in.tt.Not(x.A[1]))
		case OpBOr:
			return in.implied(in.tt.Not(x.A[0])) && in.implied(in.tt.Not(x.A[1]))
		}
	}
	return false
}

func (in *Interp) evalBool(c *Term) bool {
	return EvalU(c, in.model, in.evc) != 0
}

// decide forks on a symbolic boolean and returns the side taken on this path.
func (in *Interp) decide(c *Term) bool {
	if c.IsConst() {
		return c.K != 0
	}
	if in.spec {
		panic(specAbort{})
	}
	in.pathStats.Decisions++
	if in.dpos < len(in.prefix) {
		d := in.prefix[in.dpos]
		in.dpos++
		if d.K != dBranch {
			engineErr("replay divergence: expected %c got branch", d.K)
		}
		take := d.V != 0
		if take {
			in.assertPC(c)
		} else {
			in.assertPC(in.tt.Not(c))
		}
		in.path = append(in.path, d)
		return take
	}
	in.needModel()
	take := in.evalBool(c)
	tc, oc := c, in.tt.Not(c)
	if !take {
		tc, oc = oc, tc
	}
	var res SatResult
	var m Model
	var err error
	if in.implied(tc) {
		res = Unsat
		in.pathStats.Pruned++
	} else {
		in.pathStats.Queries++
		res, m, err = in.check([]*Term{oc}, in.inputs)
	}
	if err != nil {
		in.ex.noteSolverError(err)
	}
	alt := Decision{dBranch, 0}
	if !take {
		alt.V = 1
	}
	switch res {
	case Sat:
		noteFork(in.where())
		in.ex.push(in.path, alt, m)
	case Unknown:
		in.ex.noteUnknown()
		in.ex.push(in.path, alt, nil)
	}
	in.assertPC(tc)
	d := Decision{dBranch, 0}
	if take {
		d.V = 1
	}
	in.path = append(in.path, d)
	return take
}

// concretize picks a concrete value for a symbolic bit-vector, forking on the alternative.
func (in *Interp) concretize(t *Term) uint64 {
	if t.IsConst() {
		return t.K
	}
	if in.spec {
		panic(specAbort{})
	}
	in.pathStats.Decisions++
	if in.dpos < len(in.prefix) {
		d := in.prefix[in.dpos]
		in.dpos++
		if d.K == dBranch {
			// the alternative of a concretisation: "not any of the earlier values" – encoded as
			// a branch decision never generated for concretize; treat as divergence
			engineErr("replay divergence: concretize vs branch")
		}
		if d.K != dConc {
			engineErr("replay divergence: expected %c got concretize", d.K)
		}
		in.assertPC(in.tt.Cmp(OpEq, t, in.tt.Const(t.W, d.V)))
		in.path = append(in.path, d)
		return d.V
	}
	// enumerate: take model value v; alternative = next value found by solver with t != v.
	// To keep decision vectors simple, excluded values are asserted as part of the prefix
	// through dAssume-like entries: we enumerate all values eagerly here instead.
	in.needModel()
	v := EvalU(t, in.model, in.evc)
	// find all other feasible values (bounded) and push each as its own work item
	excl := []*Term{in.tt.Not(in.tt.Cmp(OpEq, t, in.tt.Const(t.W, v)))}
	for n := 0; ; n++ {
		if n > in.ex.cfg.MaxConcretize {
			in.ex.noteIncomplete("concretize: more than MaxConcretize values at " + in.where())
			break
		}
		in.pathStats.Queries++
		res, m, err := in.check(excl, in.inputs)
		if err != nil {
			in.ex.noteSolverError(err)
		}
		if res == Unknown {
			in.ex.noteUnknown()
			in.ex.noteIncomplete("concretize: unknown at " + in.where())
			break
		}
		if res == Unsat {
			break
		}
		ov := EvalU(t, m, evalCache{})
		noteFork("concretize in " + in.where())
		in.ex.push(in.path, Decision{dConc, ov}, m)
		excl = append(excl, in.tt.Not(in.tt.Cmp(OpEq, t, in.tt.Const(t.W, ov))))
	}
	in.assertPC(in.tt.Cmp(OpEq, t, in.tt.Const(t.W, v)))
	in.path = append(in.path, Decision{dConc, v})
	return v
}

// assume constrains the path; ends it if infeasible.
func (in *Interp) assume(c *Term) {
	if c.IsConst() {
		if c.K == 0 {
			panic(pathEnd{"infeasible", "assume false"})
		}
		return
	}
	if in.dpos < len(in.prefix) {
		d := in.prefix[in.dpos]
		in.dpos++
		if d.K != dAssume {
			engineErr("replay divergence: expected %c got assume", d.K)
		}
		in.assertPC(c)
		in.path = append(in.path, d)
		return
	}
	in.needModel()
	if !in.evalBool(c) {
		in.pathStats.Queries++
		res, m, err := in.check([]*Term{c}, in.inputs)
		if err != nil {
			in.ex.noteSolverError(err)
		}
		switch res {
		case Sat:
			in.model = m
			in.resetEval()
		case Unsat:
			panic(pathEnd{"infeasible", "assume"})
		default:
			in.ex.noteUnknown()
			panic(pathEnd{"unknown", "assume: solver unknown"})
		}
	}
	in.assertPC(c)
	in.path = append(in.path, Decision{dAssume, 1})
}

// oblige checks an assertion of the harness: reports a violation if it can fail, then continues
// on the side where it holds.
func (in *Interp) oblige(ok *Term, site string) {
	in.ex.noteAssertSite(site)
	if ok.IsConst() && ok.K != 0 {
		return
	}
	if in.dpos < len(in.prefix) {
		d := in.prefix[in.dpos]
		in.dpos++
		if d.K != dOblig {
			engineErr("replay divergence: expected %c got obligation", d.K)
		}
		in.assertPC(ok)
		in.path = append(in.path, d)
		return
	}
	in.needModel()
	if ok.IsConst() { // definitely false on this path
		in.reportViolation(site, in.model, nil)
		panic(pathEnd{"done", "assertion failed"})
	}
	nok := in.tt.Not(ok)
	if in.evalBool(ok) {
		in.pathStats.Queries++
		res, m, err := in.check([]*Term{nok}, in.inputs)
		if err != nil {
			in.ex.noteSolverError(err)
		}
		switch res {
		case Sat:
			in.reportViolation(site, m, nok)
		case Unknown:
			in.ex.noteUnknown()
			in.ex.noteIncomplete("assertion " + site + ": solver unknown")
		}
	} else {
		in.reportViolation(site, in.model, nok)
		in.pathStats.Queries++
		res, m, err := in.check([]*Term{ok}, in.inputs)
		if err != nil {
			in.ex.noteSolverError(err)
		}
		switch res {
		case Sat:
			in.model = m
			in.resetEval()
		case Unsat:
			panic(pathEnd{"done", "assertion fails on every continuation"})
		default:
			in.ex.noteUnknown()
			panic(pathEnd{"unknown", "assertion: solver unknown"})
		}
	}
	in.assertPC(ok)
	in.path = append(in.path, Decision{dOblig, 1})
}

// reportViolation classifies a failing model against the declared known regions.
// extra is the failing condition (nil when the path condition already implies failure).
func (in *Interp) reportViolation(site string, m Model, extra *Term) {
	ec := evalCache{}
	var hit string
	for _, k := range in.known {
		if !in.ex.knownListed(k.id) {
			continue
		}
		if EvalU(k.cond, m, ec) != 0 {
			hit = k.id
			break
		}
	}
	if hit == "" {
		in.ex.addViolation(in, site, m, "")
		return
	}
	in.ex.addViolation(in, site, m, hit)
	// is there also a model outside every listed region?
	if in.ex.siteHasNew(site) {
		return
	}
	q := []*Term{}
	if extra != nil {
		q = append(q, extra)
	}
	for _, k := range in.known {
		if in.ex.knownListed(k.id) {
			q = append(q, in.tt.Not(k.cond))
		}
	}
	in.pathStats.Queries++
	res, m2, err := in.check(q, in.inputs)
	if err != nil {
		in.ex.noteSolverError(err)
	}
	switch res {
	case Sat:
		in.ex.addViolation(in, site, m2, "")
	case Unknown:
		in.ex.noteUnknown()
		in.ex.noteIncomplete("known-region query unknown at " + site)
	}
}

func (in *Interp) where() string {
	if in.curFrame == nil {
		return "?"
	}
	return in.curFrame.fn.String()
}

// ---------------------------------------------------------------- symbolic inputs

func (in *Interp) newInput(name string, w uint8) *Term {
	n := in.inputCnt[name]
	in.inputCnt[name] = n + 1
	full := name
	if n > 0 {
		full = fmt.Sprintf("%s#%d", name, n)
	}
	t := in.tt.Var(full, w)
	in.inputs = append(in.inputs, t)
	return t
}

// ---------------------------------------------------------------- value helpers

func (in *Interp) toTerm(v Value, w uint8) *Term {
	switch v := v.(type) {
	case *Term:
		return v
	case uint64:
		return in.tt.Const(w, v)
	case bool:
		return in.tt.Bool(v)
	}
	panic(fmt.Sprintf("toTerm: %T", v))
}

func (in *Interp) boolTerm(v Value) *Term {
	switch v := v.(type) {
	case bool:
		return in.tt.Bool(v)
	case *Term:
		return v
	}
	panic(fmt.Sprintf("boolTerm: %T", v))
}

// truth resolves a (possibly symbolic) boolean by forking.
func (in *Interp) truth(v Value) bool {
	switch v := v.(type) {
	case bool:
		return v
	case *Term:
		return in.decide(v)
	}
	panic(fmt.Sprintf("truth: %T", v))
}

// concInt resolves a (possibly symbolic) integer to a concrete value by forking.
func (in *Interp) concInt(v Value) uint64 {
	switch v := v.(type) {
	case uint64:
		return v
	case *Term:
		return in.concretize(v)
	}
	panic(fmt.Sprintf("concInt: %T", v))
}

func (in *Interp) runtimePanic(msg string) {
	if in.spec {
		panic(specAbort{})
	}
	panic(&goPanic{val: Iface{T: types.Typ[types.String], V: "runtime error: " + msg}, msg: "runtime error: " + msg, pos: in.posString(), stack: in.stackString()})
}

func (in *Interp) posString() string {
	fr := in.curFrame
	if fr == nil {
		return ""
	}
	return fr.fn.String()
}

func (in *Interp) stackString() string {
	var sb strings.Builder
	n := 0
	for fr := in.curFrame; fr != nil && n < 12; fr = fr.caller {
		sb.WriteString(fr.fn.String())
		sb.WriteString(" <- ")
		n++
	}
	return sb.String()
}

func (in *Interp) unsupported(f string, a ...interface{}) {
	panic(pathEnd{"unsupported", fmt.Sprintf(f, a...) + " in " + in.stackString()})
}

// ---------------------------------------------------------------- operands

func (in *Interp) constVal(c *ssa.Const) Value {
	if v, ok := in.consts[c]; ok {
		return v
	}
	var v Value
	if c.Value == nil {
		v = zero(c.Type())
	} else {
		t := c.Type()
		if tp, ok := t.(*types.TypeParam); ok {
			_ = tp
			engineErr("const of type param")
		}
		switch u := under(t).(type) {
		case *types.Basic:
			switch {
			case u.Info()&types.IsBoolean != 0:
				v = constant.BoolVal(c.Value)
			case u.Info()&types.IsInteger != 0:
				w, _, _ := intInfo(t)
				cv := constant.ToInt(c.Value)
				if i, ok := constant.Int64Val(cv); ok {
					v = uint64(i) & mask(w)
				} else if ui, ok := constant.Uint64Val(cv); ok {
					v = ui & mask(w)
				} else {
					engineErr("const int out of range %v", c)
				}
			case u.Info()&types.IsFloat != 0:
				f, _ := constant.Float64Val(c.Value)
				if u.Kind() == types.Float32 {
					f = float64(float32(f))
				}
				v = f
			case u.Info()&types.IsString != 0:
				if c.Value.Kind() == constant.String {
					v = constant.StringVal(c.Value)
				} else {
					engineErr("string const kind")
				}
			default:
				engineErr("const basic %v", u)
			}
		default:
			engineErr("const of type %v", t)
		}
	}
	in.consts[c] = v
	return v
}

func (fr *frame) get(v ssa.Value) Value {
	switch v := v.(type) {
	case *ssa.Const:
		return fr.in.constVal(v)
	case *ssa.Global:
		return fr.in.globalAddr(v)
	case *ssa.Function:
		return &Closure{Fn: v}
	case *ssa.Builtin:
		return v
	case nil:
		return nil
	}
	if r, ok := fr.env[v]; ok {
		return r
	}
	engineErr("get: no value for %s (%T) in %s", v.Name(), v, fr.fn)
	return nil
}

func (in *Interp) globalAddr(g *ssa.Global) *Value {
	if p, ok := in.globals[g]; ok {
		return p
	}
	if g.Pkg != nil && !in.initAllowed(g.Pkg) && !strings.HasPrefix(g.Name(), "init$") {
		// allow a few well-known foreign globals lazily
		if v, ok := in.foreignGlobal(g); ok {
			p := new(Value)
			*p = v
			in.globals[g] = p
			return p
		}
		in.ex.noteForeignGlobal(g.String())
	}
	p := new(Value)
	*p = zero(g.Type().(*types.Pointer).Elem())
	in.globals[g] = p
	return p
}

// ---------------------------------------------------------------- calls

func (in *Interp) callValue(fv Value, args []Value, site ssa.CallInstruction) Value {
	switch f := fv.(type) {
	case *Closure:
		if f == nil {
			in.runtimePanic("invalid memory address or nil pointer dereference (nil func call)")
		}
		return in.callFn(f.Fn, args, f.Env, site)
	case *ssa.Builtin:
		return in.callBuiltin(f, args, site)
	}
	engineErr("call of %T", fv)
	return nil
}

func (in *Interp) callFn(fn *ssa.Function, args []Value, env []Value, site ssa.CallInstruction) Value {
	if it := in.lookupIntrinsic(fn); it != nil {
		return it(in, fn, args, site)
	}
	if fn.Blocks == nil {
		in.unsupported("external function %s", fn.String())
	}
	if fn.Synthetic == "package initializer" && !in.initAllowed(fn.Pkg) {
		return nil
	}
	if traceOn {
		fmt.Fprintf(os.Stderr, "%*s-> %s\n", in.depth, "", fn.String())
	}
	in.depth++
	if in.depth > 400 {
		in.unsupported("call depth > 400")
	}
	fr := &frame{in: in, caller: in.curFrame, fn: fn, site: site}
	fr.env = make(map[ssa.Value]Value, len(fn.Params)+16)
	for i, p := range fn.Params {
		fr.env[p] = args[i]
	}
	for i, fv := range fn.FreeVars {
		fr.env[fv] = env[i]
	}
	fr.block = fn.Blocks[0]
	in.curFrame = fr
	for fr.block != nil {
		in.runFrame(fr)
	}
	in.curFrame = fr.caller
	in.depth--
	return fr.result
}

func (in *Interp) runFrame(fr *frame) {
	defer func() {
		if fr.block == nil {
			return // normal return
		}
		r := recover()
		gp, ok := r.(*goPanic)
		if !ok {
			panic(r) // path end / engine error: unwind everything
		}
		in.curFrame = fr
		fr.panicking = true
		fr.panicVal = gp
		fr.runDefers()
		fr.block = fr.fn.Recover
		if fr.block == nil {
			fr.result = zeroResults(fr.fn)
		}
	}()
	for {
		b := fr.block
		for _, instr := range b.Instrs {
			in.steps++
			if traceInstr {
				r := in.exec(fr, instr)
				if v, ok := instr.(ssa.Value); ok {
					fmt.Fprintf(os.Stderr, "%*s   %s = %s  => %s\n", in.depth, "", v.Name(), instr, showVal(fr.env[v]))
				} else {
					fmt.Fprintf(os.Stderr, "%*s   %s\n", in.depth, "", instr)
				}
				switch r {
				case kReturn:
					fr.block = nil
					return
				case kJump:
					goto next
				}
				continue
			}
			switch in.exec(fr, instr) {
			case kReturn:
				fr.block = nil
				return
			case kJump:
				goto next
			}
		}
		engineErr("block fell through in %s", fr.fn)
	next:
		if in.steps > in.ex.cfg.MaxSteps {
			panic(pathEnd{"steps", fmt.Sprintf("more than %d steps", in.ex.cfg.MaxSteps)})
		}
	}
}

func zeroResults(fn *ssa.Function) Value {
	res := fn.Signature.Results()
	switch res.Len() {
	case 0:
		return nil
	case 1:
		return zero(res.At(0).Type())
	}
	return zero(res)
}

func (fr *frame) runDefers() {
	for len(fr.defers) > 0 {
		d := fr.defers[len(fr.defers)-1]
		fr.defers = fr.defers[:len(fr.defers)-1]
		fr.in.curFrame = fr
		fr.in.callValue(d.fn, d.args, d.site)
	}
	fr.in.curFrame = fr
	if fr.panicking {
		panic(fr.panicVal)
	}
}

const (
	kNext = iota
	kJump
	kReturn
)

func (in *Interp) jump(fr *frame, to *ssa.BasicBlock) {
	// back edge detection: target index <= current index (reducible-ish heuristic)
	if to.Index <= fr.block.Index {
		if fr.loops == nil {
			fr.loops = map[*ssa.BasicBlock]int{}
		}
		fr.loops[to]++
		in.backEdges++
		if in.termBudget > 0 && in.backEdges-in.termBase > in.termBudget {
			panic(pathEnd{"nonterm", fmt.Sprintf("loop budget %d exceeded in %s", in.termBudget, fr.fn)})
		}
		if fr.loops[to] > in.unwind {
			panic(pathEnd{"unwind", fmt.Sprintf("unwind bound %d exceeded in %s", in.unwind, fr.fn)})
		}
	}
	fr.prev = fr.block
	fr.block = to
	fr.phiDone = nil
}

// tryOrChain recognises the shape a `case a, b, c:` list (or `x == a || x == b || ...`)
// compiles to - a chain of blocks, each only comparing and branching, whose true edges all
// lead to the same block - and decides the disjunction once instead of forking per value.
// Conditions: every later block of the chain holds exactly one comparison and its If, is
// entered only from its predecessor in the chain, and the common target has no phi nodes
// (so it cannot observe which comparison succeeded). Returns true if control was transferred.
func (in *Interp) tryOrChain(fr *frame, i *ssa.If, c *Term) bool {
	if in.ex.cfg.NoMerge || in.spec {
		return false
	}
	cur := fr.block
	target := cur.Succs[0]
	if len(target.Instrs) > 0 {
		if _, isPhi := target.Instrs[0].(*ssa.Phi); isPhi {
			return false
		}
	}
	conds := []*Term{c}
	last := cur
	next := cur.Succs[1]
	for next != target && len(next.Preds) == 1 && len(next.Instrs) == 2 && len(next.Succs) == 2 && next.Succs[0] == target && next.Index > last.Index {
		bo, ok := next.Instrs[0].(*ssa.BinOp)
		if !ok || (bo.Op != token.EQL && bo.Op != token.NEQ && bo.Op != token.LSS && bo.Op != token.LEQ && bo.Op != token.GTR && bo.Op != token.GEQ) {
			break
		}
		nif, ok := next.Instrs[1].(*ssa.If)
		if !ok || nif.Cond != ssa.Value(bo) {
			break
		}
		if refs := bo.Referrers(); refs == nil || len(*refs) != 1 {
			break
		}
		v := in.binop(bo.Op, bo.X.Type(), fr.get(bo.X), fr.get(bo.Y))
		var t *Term
		switch vv := v.(type) {
		case *Term:
			t = vv
		case bool:
			t = in.tt.Bool(vv)
		default:
			return false
		}
		conds = append(conds, t)
		last = next
		next = next.Succs[1]
	}
	if len(conds) < 2 {
		return false
	}
	disj := conds[0]
	for _, t := range conds[1:] {
		disj = in.tt.Or(disj, t)
	}
	take := true
	if !disj.IsConst() {
		take = in.decide(disj)
	} else {
		take = disj.K != 0
	}
	if take {
		in.jump(fr, target)
	} else {
		fr.block = last
		in.jump(fr, next)
	}
	return true
}

func (in *Interp) exec(fr *frame, instr ssa.Instruction) int {
	in.curInstr = instr
	switch i := instr.(type) {
	case *ssa.DebugRef:
	case *ssa.UnOp:
		fr.env[i] = in.unop(fr, i)
	case *ssa.BinOp:
		fr.env[i] = in.binop(i.Op, i.X.Type(), fr.get(i.X), fr.get(i.Y))
	case *ssa.Call:
		fn, args := in.prepareCall(fr, &i.Call)
		fr.env[i] = in.callValue(fn, args, i)
		in.curFrame = fr
	case *ssa.ChangeInterface:
		fr.env[i] = fr.get(i.X)
	case *ssa.ChangeType:
		fr.env[i] = fr.get(i.X)
	case *ssa.Convert:
		fr.env[i] = in.convert(i.X.Type(), i.Type(), fr.get(i.X))
	case *ssa.MultiConvert:
		fr.env[i] = in.convert(i.X.Type(), i.Type(), fr.get(i.X))
	case *ssa.SliceToArrayPointer:
		s := fr.get(i.X).(Slice)
		n := int(i.Type().(*types.Pointer).Elem().Underlying().(*types.Array).Len())
		if len(s) < n {
			in.runtimePanic("cannot convert slice to array pointer: length too short")
		}
		if s == nil {
			fr.env[i] = (*Value)(nil)
		} else {
			p := new(Value)
			*p = Array(s[:n:n])
			fr.env[i] = p
		}
	case *ssa.MakeInterface:
		fr.env[i] = Iface{T: i.X.Type(), V: copyVal(fr.get(i.X))}
	case *ssa.Extract:
		fr.env[i] = fr.get(i.Tuple).(Tuple)[i.Index]
	case *ssa.Slice:
		fr.env[i] = in.sliceOp(fr, i)
	case *ssa.Return:
		switch len(i.Results) {
		case 0:
		case 1:
			fr.result = fr.get(i.Results[0])
		default:
			t := make(Tuple, len(i.Results))
			for k, r := range i.Results {
				t[k] = fr.get(r)
			}
			fr.result = t
		}
		return kReturn
	case *ssa.RunDefers:
		fr.runDefers()
	case *ssa.Panic:
		v := fr.get(i.X)
		panic(&goPanic{val: v, msg: in.panicString(v), pos: fr.fn.String(), stack: in.stackString()})
	case *ssa.Send:
		in.chanSend(fr.get(i.Chan).(*Chan), copyVal(fr.get(i.X)))
	case *ssa.Store:
		in.store(fr.get(i.Addr), fr.get(i.Val), i.Val.Type())
	case *ssa.If:
		c := fr.get(i.Cond)
		var take bool
		if ct, ok := c.(*Term); ok && !ct.IsConst() {
			if j := in.tryMerge(fr, i, ct); j {
				return kJump
			}
			if in.tryOrChain(fr, i, ct) {
				return kJump
			}
			take = in.decide(ct)
		} else {
			take = in.truth(c)
		}
		if take {
			in.jump(fr, fr.block.Succs[0])
		} else {
			in.jump(fr, fr.block.Succs[1])
		}
		return kJump
	case *ssa.Jump:
		in.jump(fr, fr.block.Succs[0])
		return kJump
	case *ssa.Defer:
		fn, args := in.prepareCall(fr, &i.Call)
		fr.defers = append(fr.defers, deferred{fn, args, i})
	case *ssa.Go:
		fn, args := in.prepareCall(fr, &i.Call)
		in.goStmt(fn, args, i)
	case *ssa.MakeChan:
		n := in.concInt(fr.get(i.Size))
		in.chanSeq++
		fr.env[i] = &Chan{cap: int(n), id: in.chanSeq}
	case *ssa.Alloc:
		p := new(Value)
		*p = zero(i.Type().(*types.Pointer).Elem())
		fr.env[i] = p
	case *ssa.MakeSlice:
		fr.env[i] = in.makeSlice(fr, i)
	case *ssa.MakeMap:
		fr.env[i] = newMap()
	case *ssa.Range:
		fr.env[i] = in.rangeOp(fr, i)
	case *ssa.Next:
		fr.env[i] = in.nextOp(fr, i)
	case *ssa.FieldAddr:
		fr.env[i] = in.fieldAddr(fr.get(i.X), i.Field)
	case *ssa.Field:
		fr.env[i] = copyVal(fr.get(i.X).(Struct)[i.Field])
	case *ssa.IndexAddr:
		fr.env[i] = in.indexAddr(fr, i)
	case *ssa.Index:
		fr.env[i] = in.indexOp(fr, i)
	case *ssa.Lookup:
		fr.env[i] = in.lookupOp(fr, i)
	case *ssa.MapUpdate:
		in.mapUpdate(fr.get(i.Map).(*Map), fr.get(i.Key), copyVal(fr.get(i.Value)))
	case *ssa.TypeAssert:
		fr.env[i] = in.typeAssert(fr, i)
	case *ssa.MakeClosure:
		var env []Value
		for _, b := range i.Bindings {
			env = append(env, fr.get(b))
		}
		fr.env[i] = &Closure{Fn: i.Fn.(*ssa.Function), Env: env}
	case *ssa.Phi:
		if fr.phiDone == fr.block {
			break
		}
		for k, pred := range fr.block.Preds {
			if pred == fr.prev {
				fr.env[i] = fr.get(i.Edges[k])
				break
			}
		}
	case *ssa.Select:
		fr.env[i] = in.selectOp(fr, i)
	default:
		engineErr("unhandled instruction %T", instr)
	}
	return kNext
}

func (in *Interp) panicString(v Value) string {
	if i, ok := v.(Iface); ok {
		if i.T == nil {
			return "panic(nil)"
		}
		switch x := i.V.(type) {
		case string:
			return x
		case *SymStr:
			return "<symbolic string>"
		}
		// error values: try Error()
		if m := in.findMethod(i.T, "Error"); m != nil {
			func() {
				defer func() { recover() }()
			}()
			return "panic(" + i.T.String() + ")"
		}
		return "panic(" + i.T.String() + ")"
	}
	return "panic"
}

func (in *Interp) prepareCall(fr *frame, call *ssa.CallCommon) (Value, []Value) {
	var fn Value
	var args []Value
	if call.Method == nil {
		fn = fr.get(call.Value)
	} else {
		recv := fr.get(call.Value).(Iface)
		if recv.T == nil {
			in.curFrame = fr
			in.runtimePanic("invalid memory address or nil pointer dereference (method call on nil interface)")
		}
		m := in.findMethodObj(recv.T, call.Method)
		if m == nil {
			engineErr("method %s not found on %s", call.Method, recv.T)
		}
		fn = &Closure{Fn: m}
		args = append(args, recv.V)
	}
	for _, a := range call.Args {
		args = append(args, copyVal(fr.get(a)))
	}
	return fn, args
}

func (in *Interp) findMethodObj(t types.Type, meth *types.Func) *ssa.Function {
	key := meth.Id()
	mm := in.methods[t]
	if mm == nil {
		mm = map[string]*ssa.Function{}
		in.methods[t] = mm
	}
	if f, ok := mm[key]; ok {
		return f
	}
	f := in.prog.LookupMethod(t, meth.Pkg(), meth.Name())
	mm[key] = f
	return f
}

func (in *Interp) findMethod(t types.Type, name string) *ssa.Function {
	ms := in.prog.MethodSets.MethodSet(t)
	for i := 0; i < ms.Len(); i++ {
		if ms.At(i).Obj().Name() == name {
			return in.prog.MethodValue(ms.At(i))
		}
	}
	return nil
}

// ---------------------------------------------------------------- memory

func (in *Interp) load(addr Value, t types.Type) Value {
	switch p := addr.(type) {
	case *Value:
		if p == nil {
			in.runtimePanic("invalid memory address or nil pointer dereference")
		}
		return copyVal(*p)
	case *LazyPtr:
		v := zero(p.ls.elem)
		for _, w := range p.ls.writes {
			v = in.mergeVal(in.tt.Cmp(OpEq, p.idx, w.idx), copyVal(w.val), v, p.ls.elem)
		}
		for _, f := range p.path {
			v = v.(Struct)[f]
		}
		return copyVal(v)
	case *SymPtr:
		n := len(p.c)
		v := copyVal(*p.c[n-1].p)
		for k := n - 2; k >= 0; k-- {
			v = in.mergeVal(p.c[k].g, copyVal(*p.c[k].p), v, t)
		}
		return v
	}
	engineErr("load from %T", addr)
	return nil
}

func (in *Interp) store(addr Value, v Value, t types.Type) {
	switch p := addr.(type) {
	case *Value:
		if p == nil {
			in.runtimePanic("invalid memory address or nil pointer dereference")
		}
		assign(p, v)
	case *LazyPtr:
		if len(p.path) > 0 {
			whole := in.load(&LazyPtr{ls: p.ls, idx: p.idx}, p.ls.elem)
			cur := whole
			for _, f := range p.path[:len(p.path)-1] {
				cur = cur.(Struct)[f]
			}
			cur.(Struct)[p.path[len(p.path)-1]] = copyVal(v)
			v = whole
		}
		p.ls.writes = append(p.ls.writes, lazyWrite{p.idx, copyVal(v)})
	case *SymPtr:
		for _, c := range p.c {
			assign(c.p, in.mergeVal(c.g, copyVal(v), copyVal(*c.p), t))
		}
	default:
		engineErr("store to %T", addr)
	}
}

// assign stores v into the slot in place: struct fields and array elements are overwritten
// individually so that pointers into the aggregate (FieldAddr/IndexAddr results taken
// earlier) stay valid.
func assign(dst *Value, v Value) {
	switch nv := v.(type) {
	case Struct:
		if cur, ok := (*dst).(Struct); ok && len(cur) == len(nv) {
			for i := range nv {
				assign(&cur[i], nv[i])
			}
			return
		}
	case Array:
		if cur, ok := (*dst).(Array); ok && len(cur) == len(nv) {
			for i := range nv {
				assign(&cur[i], nv[i])
			}
			return
		}
	}
	*dst = copyVal(v)
}

// mergeVal returns ite(g, a, b) structurally; falls back to forking on g.
func (in *Interp) mergeVal(g *Term, a, b Value, t types.Type) Value {
	if g.IsConst() {
		if g.K != 0 {
			return a
		}
		return b
	}
	switch x := a.(type) {
	case uint64:
		if y, ok := b.(uint64); ok && x == y {
			return a
		}
		w, _, ok := intInfo(t)
		if !ok {
			break
		}
		return in.tt.Ite(g, in.toTerm(a, w), in.toTerm(b, w))
	case bool:
		if y, ok := b.(bool); ok && x == y {
			return a
		}
		return in.tt.Ite(g, in.boolTerm(a), in.boolTerm(b))
	case *Term:
		if x.W == SortReal {
			return in.tt.Ite(g, x, in.realTerm(b))
		}
		return in.tt.Ite(g, x, in.toTerm(b, x.W))
	case float64:
		if y, ok := b.(float64); ok && x == y {
			return a
		}
		return in.tt.Ite(g, in.realTerm(a), in.realTerm(b))
	case string, *SymStr:
		if sa, ok := a.(string); ok {
			if sb, ok := b.(string); ok && sa == sb {
				return a
			}
		}
		if strLen(a) == strLen(b) {
			ba, bb := strBytes(a), strBytes(b)
			out := make([]Value, len(ba))
			for i := range ba {
				out[i] = in.mergeVal(g, ba[i], bb[i], types.Typ[types.Uint8])
			}
			return mkStr(out)
		}
	case Struct:
		y := b.(Struct)
		st := under(t).(*types.Struct)
		out := make(Struct, len(x))
		for i := range x {
			out[i] = in.mergeVal(g, x[i], y[i], st.Field(i).Type())
		}
		return out
	case Array:
		y := b.(Array)
		et := under(t).(*types.Array).Elem()
		out := make(Array, len(x))
		for i := range x {
			out[i] = in.mergeVal(g, x[i], y[i], et)
		}
		return out
	case Iface:
		y := b.(Iface)
		if x.T == nil && y.T == nil {
			return a
		}
		if x.T != nil && y.T != nil && types.Identical(x.T, y.T) {
			return Iface{x.T, in.mergeVal(g, x.V, y.V, x.T)}
		}
	case *Value:
		if y, ok := b.(*Value); ok && x == y {
			return a
		}
	case Slice:
		y := b.(Slice)
		if len(x) == len(y) && cap(x) == cap(y) && (cap(x) == 0 && (x == nil) == (y == nil) || cap(x) > 0 && &x[:1][0] == &y[:1][0]) {
			return a
		}
	case *Map:
		if y, ok := b.(*Map); ok && x == y {
			return a
		}
	case *Chan:
		if y, ok := b.(*Chan); ok && x == y {
			return a
		}
	case *Closure:
		if y, ok := b.(*Closure); ok && (x == y || x != nil && y != nil && x.Fn == y.Fn && len(x.Env) == 0 && len(y.Env) == 0) {
			return a
		}
	}
	if in.decide(g) {
		return a
	}
	return b
}

func (in *Interp) fieldAddr(base Value, field int) Value {
	switch p := base.(type) {
	case *Value:
		if p == nil {
			in.runtimePanic("invalid memory address or nil pointer dereference")
		}
		return &(*p).(Struct)[field]
	case *SymPtr:
		n := &SymPtr{c: make([]cand, len(p.c))}
		for i, c := range p.c {
			n.c[i] = cand{c.g, &(*c.p).(Struct)[field]}
		}
		return n
	case *LazyPtr:
		np := append(append([]int{}, p.path...), field)
		return &LazyPtr{ls: p.ls, idx: p.idx, path: np}
	}
	engineErr("fieldAddr on %T", base)
	return nil
}

// elemsOf returns the addressable element storage behind an IndexAddr base.
func (in *Interp) elemsOf(base Value) []Value {
	switch b := base.(type) {
	case Slice:
		return b
	case *Value:
		if b == nil {
			in.runtimePanic("invalid memory address or nil pointer dereference")
		}
		return (*b).(Array)
	}
	engineErr("elemsOf %T", base)
	return nil
}

func (in *Interp) indexAddr(fr *frame, i *ssa.IndexAddr) Value {
	base := fr.get(i.X)
	idx := fr.get(i.Index)
	iw, isigned, _ := intInfo(i.Index.Type())
	if lz, ok := base.(*LazySlice); ok {
		var i64 *Term
		it := in.toTerm(idx, iw)
		if isigned {
			i64 = in.tt.SExt(it, 64)
		} else {
			i64 = in.tt.ZExt(it, 64)
		}
		if !in.decide(in.tt.Cmp(OpULt, i64, lz.length)) {
			in.runtimePanic("index out of range [symbolic] with symbolic length")
		}
		return &LazyPtr{ls: lz, idx: i64}
	}
	if sp, ok := base.(*SymPtr); ok {
		// pointer-to-array behind symbolic pointer: combine guards
		out := &SymPtr{}
		for _, c := range sp.c {
			elems := (*c.p).(Array)
			sub := in.indexCands(elems, idx, iw, isigned)
			for _, s := range sub {
				out.c = append(out.c, cand{in.tt.And(c.g, s.g), s.p})
			}
		}
		return in.normPtr(out)
	}
	elems := in.elemsOf(base)
	cs := in.indexCands(elems, idx, iw, isigned)
	return in.normPtr(&SymPtr{c: cs})
}

func (in *Interp) normPtr(sp *SymPtr) Value {
	if len(sp.c) == 1 {
		return sp.c[0].p
	}
	return sp
}

// indexCands performs the bounds check (forking into a runtime panic path when it can fail)
// and returns guarded candidate element addresses.
func (in *Interp) indexCands(elems []Value, idx Value, iw uint8, isigned bool) []cand {
	n := len(elems)
	switch x := idx.(type) {
	case uint64:
		v := x
		if isigned && sext(v, iw) < 0 || v >= uint64(n) {
			in.runtimePanic(fmt.Sprintf("index out of range [%d] with length %d", sext(v, iw), n))
		}
		return []cand{{in.tt.True, &elems[v]}}
	case *Term:
		inRange := in.tt.Cmp(OpULt, x, in.tt.Const(iw, uint64(n)))
		if n == 0 {
			inRange = in.tt.False
		} else if iw < 64 && uint64(n) > mask(iw) {
			inRange = in.tt.True // every value of the index type is in range
		}
		if !in.decide(inRange) {
			in.runtimePanic(fmt.Sprintf("index out of range [symbolic] with length %d", n))
		}
		if n > in.ex.cfg.MaxSymIndex {
			v := in.concretize(x)
			return []cand{{in.tt.True, &elems[v]}}
		}
		cs := make([]cand, 0, n)
		for k := 0; k < n; k++ {
			g := in.tt.Cmp(OpEq, x, in.tt.Const(iw, uint64(k)))
			if g.IsConst() && g.K == 0 {
				continue
			}
			cs = append(cs, cand{g, &elems[k]})
		}
		if len(cs) == 0 {
			panic(pathEnd{"infeasible", "index"})
		}
		return cs
	}
	engineErr("index of %T", idx)
	return nil
}

func (in *Interp) indexOp(fr *frame, i *ssa.Index) Value {
	x := fr.get(i.X)
	idx := fr.get(i.Index)
	iw, isigned, _ := intInfo(i.Index.Type())
	switch b := x.(type) {
	case Array:
		cs := in.indexCands(b, idx, iw, isigned)
		return in.load(in.normPtr(&SymPtr{c: cs}), i.Type())
	case string, *SymStr:
		bytes := strBytes(b)
		cs := in.indexCands(bytes, idx, iw, isigned)
		return in.load(in.normPtr(&SymPtr{c: cs}), types.Typ[types.Uint8])
	}
	engineErr("index on %T", x)
	return nil
}

func (in *Interp) makeSlice(fr *frame, i *ssa.MakeSlice) Value {
	if lt, ok := fr.get(i.Len).(*Term); ok && in.ex.cfg.LazySlices {
		lw, ls, _ := intInfo(i.Len.Type())
		var l64 *Term
		if ls {
			if in.decide(in.tt.Cmp(OpSLt, lt, in.tt.Const(lw, 0))) {
				in.runtimePanic("makeslice: len out of range")
			}
			l64 = in.tt.SExt(lt, 64)
		} else {
			l64 = in.tt.ZExt(lt, 64)
		}
		return &LazySlice{length: l64, elem: i.Type().Underlying().(*types.Slice).Elem()}
	}
	n := in.concInt(fr.get(i.Len))
	c := in.concInt(fr.get(i.Cap))
	lw, ls, _ := intInfo(i.Len.Type())
	if ls && sext(n, lw) < 0 || n > 1<<24 {
		in.runtimePanic("makeslice: len out of range")
	}
	cw, csn, _ := intInfo(i.Cap.Type())
	if csn && sext(c, cw) < 0 || c < n || c > 1<<24 {
		in.runtimePanic("makeslice: cap out of range")
	}
	et := i.Type().Underlying().(*types.Slice).Elem()
	s := make(Slice, n, c)
	full := s[:c]
	z := zero(et)
	for k := range full {
		full[k] = copyVal(z)
	}
	return s
}

func (in *Interp) sliceOp(fr *frame, i *ssa.Slice) Value {
	x := fr.get(i.X)
	getIdx := func(v ssa.Value, def int) int {
		if v == nil {
			return def
		}
		w, s, _ := intInfo(v.Type())
		n := in.concInt(fr.get(v))
		if s && sext(n, w) < 0 {
			return -1
		}
		if n > 1<<40 {
			return 1 << 40
		}
		return int(n)
	}
	switch b := x.(type) {
	case string, *SymStr:
		n := strLen(b)
		lo := getIdx(i.Low, 0)
		hi := getIdx(i.High, n)
		if lo < 0 || hi < lo || hi > n {
			in.runtimePanic(fmt.Sprintf("slice bounds out of range [%d:%d] with length %d", lo, hi, n))
		}
		return strSlice(b, lo, hi)
	case Slice:
		lo := getIdx(i.Low, 0)
		hi := getIdx(i.High, len(b))
		max := getIdx(i.Max, cap(b))
		if lo < 0 || hi < lo || max < hi || max > cap(b) {
			in.runtimePanic(fmt.Sprintf("slice bounds out of range [%d:%d:%d] with capacity %d", lo, hi, max, cap(b)))
		}
		if b == nil {
			return Slice(nil)
		}
		return b[lo:hi:max]
	case *Value:
		if b == nil {
			in.runtimePanic("invalid memory address or nil pointer dereference")
		}
		a := (*b).(Array)
		lo := getIdx(i.Low, 0)
		hi := getIdx(i.High, len(a))
		max := getIdx(i.Max, len(a))
		if lo < 0 || hi < lo || max < hi || max > len(a) {
			in.runtimePanic(fmt.Sprintf("slice bounds out of range [%d:%d:%d] with capacity %d", lo, hi, max, len(a)))
		}
		return Slice(a[lo:hi:max])
	}
	engineErr("slice of %T", x)
	return nil
}

// ---------------------------------------------------------------- unop

func (in *Interp) unop(fr *frame, i *ssa.UnOp) Value {
	x := fr.get(i.X)
	switch i.Op {
	case token.MUL:
		return in.load(x, i.Type())
	case token.NOT:
		switch b := x.(type) {
		case bool:
			return !b
		case *Term:
			return in.tt.Not(b)
		}
	case token.SUB:
		switch v := x.(type) {
		case uint64:
			w, _, _ := intInfo(i.Type())
			return (-v) & mask(w)
		case float64:
			return -v
		case *Term:
			if v.W == SortReal {
				return in.tt.RBin(OpRSub, in.tt.RConst(ratZero), v)
			}
			return in.tt.Neg(v)
		}
	case token.XOR:
		switch v := x.(type) {
		case uint64:
			w, _, _ := intInfo(i.Type())
			return (^v) & mask(w)
		case *Term:
			return in.tt.BVNot(v)
		}
	case token.ARROW:
		v, ok := in.chanRecv(x.(*Chan), i.X.Type().Underlying().(*types.Chan).Elem())
		if i.CommaOk {
			return Tuple{v, ok}
		}
		return v
	}
	engineErr("unop %v on %T", i.Op, x)
	return nil
}

// ---------------------------------------------------------------- maps

func (in *Interp) mapFind(m *Map, k Value) (*mapEntry, string, bool) {
	ks, conc := keyString(k)
	if conc && !m.symKeys {
		return m.getConc(ks), ks, true
	}
	// symbolic key (or map with symbolic keys): compare against every live entry, forking
	for _, e := range m.live() {
		eq := in.equal(e.k, k, nil)
		if in.truth(eq) {
			return e, "", false
		}
	}
	return nil, ks, conc
}

func (in *Interp) lookupOp(fr *frame, i *ssa.Lookup) Value {
	x := fr.get(i.X)
	k := fr.get(i.Index)
	if m, ok := x.(*Map); ok {
		vt := i.X.Type().Underlying().(*types.Map).Elem()
		var v Value
		found := false
		if m != nil {
			if _, conc := keyString(k); !conc && !m.symKeys && !in.spec {
				// symbolic key into a map with concrete keys: ite chain instead of forking
				var fv Value = false
				v = zero(vt)
				ents := m.live()
				for x := len(ents) - 1; x >= 0; x-- {
					eq := in.equal(ents[x].k, k, nil)
					if b, ok := eq.(bool); ok {
						if b {
							v, fv = copyVal(ents[x].v), true
						}
						continue
					}
					v = in.mergeVal(eq.(*Term), copyVal(ents[x].v), v, vt)
					fv = in.orv(eq, fv)
				}
				if i.CommaOk {
					return Tuple{v, fv}
				}
				return v
			}
			e, _, _ := in.mapFind(m, k)
			if e != nil {
				v, found = copyVal(e.v), true
			}
		}
		if !found {
			v = zero(vt)
		}
		if i.CommaOk {
			return Tuple{v, found}
		}
		return v
	}
	// string index
	iw, isigned, _ := intInfo(i.Index.Type())
	bytes := strBytes(x)
	cs := in.indexCands(bytes, k, iw, isigned)
	return in.load(in.normPtr(&SymPtr{c: cs}), types.Typ[types.Uint8])
}

func (in *Interp) mapUpdate(m *Map, k, v Value) {
	if m == nil {
		in.runtimePanic("assignment to entry in nil map")
	}
	e, ks, conc := in.mapFind(m, k)
	if e != nil {
		e.v = v
		return
	}
	if conc && !m.symKeys {
		m.setConc(ks, k, v)
		return
	}
	m.symKeys = true
	m.entries = append(m.entries, &mapEntry{k: k, v: v})
	m.n++
}

func (in *Interp) mapDelete(m *Map, k Value) {
	if m == nil {
		return
	}
	e, ks, conc := in.mapFind(m, k)
	if e == nil {
		return
	}
	if conc && !m.symKeys {
		m.delConc(ks)
		return
	}
	e.deleted = true
	m.n--
	if ks2, ok := keyString(e.k); ok {
		delete(m.idx, ks2)
	}
}

// ---------------------------------------------------------------- range / next

func (in *Interp) rangeOp(fr *frame, i *ssa.Range) Value {
	x := fr.get(i.X)
	switch v := x.(type) {
	case string, *SymStr:
		return &rangeIter{str: v}
	case *Map:
		it := &rangeIter{m: v}
		if v != nil {
			it.snap = v.live()
		}
		return it
	}
	engineErr("range over %T", x)
	return nil
}

func (in *Interp) nextOp(fr *frame, i *ssa.Next) Value {
	it := fr.get(i.Iter).(*rangeIter)
	if i.IsString {
		n := strLen(it.str)
		if it.pos >= n {
			return Tuple{false, uint64(0), uint64(0)}
		}
		r, size := in.decodeRune(strBytes(it.str), it.pos)
		p := it.pos
		it.pos += size
		return Tuple{true, uint64(p), r}
	}
	for it.i < len(it.snap) {
		e := it.snap[it.i]
		it.i++
		if e.deleted {
			continue
		}
		return Tuple{true, copyVal(e.k), copyVal(e.v)}
	}
	return Tuple{false, nil, nil}
}

// ---------------------------------------------------------------- type assertions

func (in *Interp) implements(dyn types.Type, iface *types.Interface, it types.Type) bool {
	key := [2]types.Type{dyn, it}
	if r, ok := in.implCache[key]; ok {
		return r
	}
	r := types.Implements(dyn, iface)
	in.implCache[key] = r
	return r
}

func (in *Interp) typeAssert(fr *frame, i *ssa.TypeAssert) Value {
	x := fr.get(i.X).(Iface)
	var ok bool
	var v Value
	if it, isI := under(i.AssertedType).(*types.Interface); isI {
		if x.T != nil && in.implements(x.T, it, i.AssertedType) {
			ok = true
			v = x
		}
	} else if x.T != nil && types.Identical(x.T, i.AssertedType) {
		ok = true
		v = copyVal(x.V)
	}
	if i.CommaOk {
		if !ok {
			v = zero(i.AssertedType)
		}
		return Tuple{v, ok}
	}
	if !ok {
		ts := "nil"
		if x.T != nil {
			ts = x.T.String()
		}
		in.curFrame = fr
		in.runtimePanic(fmt.Sprintf("interface conversion: interface is %s, not %s", ts, i.AssertedType))
	}
	return v
}

// ---------------------------------------------------------------- builtins

func (in *Interp) callBuiltin(b *ssa.Builtin, args []Value, site ssa.CallInstruction) Value {
	switch b.Name() {
	case "len":
		switch x := args[0].(type) {
		case string:
			return uint64(len(x))
		case *SymStr:
			return uint64(len(x.B))
		case Slice:
			return uint64(len(x))
		case *LazySlice:
			return x.length
		case Array:
			return uint64(len(x))
		case *Value: // pointer to array
			return uint64(len((*x).(Array)))
		case *Map:
			if x == nil {
				return uint64(0)
			}
			return uint64(x.n)
		case *Chan:
			if x == nil {
				return uint64(0)
			}
			return uint64(len(x.buf))
		}
	case "cap":
		switch x := args[0].(type) {
		case Slice:
			return uint64(cap(x))
		case Array:
			return uint64(len(x))
		case *Value:
			return uint64(len((*x).(Array)))
		case *Chan:
			if x == nil {
				return uint64(0)
			}
			return uint64(x.cap)
		}
	case "append":
		s := args[0].(Slice)
		var add []Value
		switch y := args[1].(type) {
		case Slice:
			add = y
		case string, *SymStr:
			add = strBytes(y)
		default:
			engineErr("append arg %T", args[1])
		}
		if len(add) == 0 {
			return s
		}
		if len(s)+len(add) <= cap(s) {
			n := s[:len(s)+len(add)]
			for k, v := range add {
				n[len(s)+k] = copyVal(v)
			}
			return n
		}
		nc := 2 * cap(s)
		if nc < len(s)+len(add) {
			nc = len(s) + len(add)
		}
		if nc < 4 {
			nc = 4
		}
		n := make(Slice, len(s)+len(add), nc)
		copy(n, s)
		for k, v := range add {
			n[len(s)+k] = copyVal(v)
		}
		// zero the spare capacity lazily: elements beyond len are only reachable by reslicing
		if len(n) < nc {
			var et types.Type
			if site != nil {
				if st, ok := site.Common().Args[0].Type().Underlying().(*types.Slice); ok {
					et = st.Elem()
				}
			}
			if et != nil {
				full := n[:nc]
				z := zero(et)
				for k := len(n); k < nc; k++ {
					full[k] = copyVal(z)
				}
			}
		}
		return n
	case "copy":
		dst := args[0].(Slice)
		var src []Value
		switch y := args[1].(type) {
		case Slice:
			src = y
		case string, *SymStr:
			src = strBytes(y)
		}
		n := len(dst)
		if len(src) < n {
			n = len(src)
		}
		tmp := make([]Value, n)
		for k := 0; k < n; k++ {
			tmp[k] = copyVal(src[k])
		}
		copy(dst, tmp)
		return uint64(n)
	case "delete":
		in.mapDelete(args[0].(*Map), args[1])
		return nil
	case "clear":
		switch x := args[0].(type) {
		case *Map:
			if x != nil {
				x.idx = map[string]int{}
				x.entries = nil
				x.n = 0
			}
		case Slice:
			if site != nil {
				et := site.Common().Args[0].Type().Underlying().(*types.Slice).Elem()
				for k := range x {
					x[k] = zero(et)
				}
			}
		}
		return nil
	case "close":
		c := args[0].(*Chan)
		if c == nil {
			in.runtimePanic("close of nil channel")
		}
		if c.closed {
			in.runtimePanic("close of closed channel")
		}
		c.closed = true
		in.sched()
		return nil
	case "panic":
		panic(&goPanic{val: args[0], msg: in.panicString(args[0]), pos: in.posString(), stack: in.stackString()})
	case "recover":
		// the frame calling recover() is a deferred function; its caller is the panicking frame
		fr := in.curFrame
		if fr != nil && fr.caller != nil && fr.caller.panicking {
			fr.caller.panicking = false
			p := fr.caller.panicVal
			fr.caller.panicVal = nil
			return p.val
		}
		return Iface{}
	case "print", "println":
		return nil
	case "min", "max":
		t := site.Common().Args[0].Type()
		r := args[0]
		for _, a := range args[1:] {
			var tok token.Token = token.LSS
			if b.Name() == "max" {
				tok = token.GTR
			}
			c := in.binop(tok, t, a, r)
			switch cv := c.(type) {
			case bool:
				if cv {
					r = a
				}
			case *Term:
				r = in.mergeVal(cv, a, r, t)
			}
		}
		if traceOn {
			fmt.Fprintf(os.Stderr, "builtin %s(%v) = %v\n", b.Name(), args, r)
		}
		return r
	case "ssa:wrapnilchk":
		if p, ok := args[0].(*Value); ok && p == nil {
			in.runtimePanic("value method called using nil pointer")
		}
		return args[0]
	case "String": // unsafe.String(ptr, len)
		in.unsupported("unsafe.String")
	}
	in.unsupported("builtin %s", b.Name())
	return nil
}
