package symgo

import (
	"bytes"
	"context"
	"encoding/json"
	"fmt"
	"os"
	"os/exec"
	"path/filepath"
	"strings"
	"time"
)

// Native builds the harness natively (go test -c -overlay) and replays concrete cases.
type Native struct {
	Ov      *Overlay
	WorkDir string
}

type ReplayCase struct {
	Property string            `json:"property,omitempty"`
	Pkg      string            `json:"pkg"`
	Harness  string            `json:"harness"`
	Inputs   map[string]string `json:"inputs"`
	Params   map[string]int    `json:"params"`
	Site     string            `json:"site,omitempty"`
	Expect   string            `json:"expect,omitempty"`
	Observes []string          `json:"observes,omitempty"`
	Note     string            `json:"note,omitempty"`
}

type NativeOutcome struct {
	Outcome  string // pass | assert:<label> | assume | panic | timeout | error
	Detail   string
	Observes []string
	Output   string
}

func safeName(s string) string {
	return strings.NewReplacer("/", "_", ".", "root").Replace(s)
}

func (n *Native) Build(pkgDir string, funcs []string) (string, error) {
	dir := filepath.Join(n.WorkDir, safeName(pkgDir))
	if err := os.MkdirAll(dir, 0o755); err != nil {
		return "", err
	}
	pkgName, err := packageName(n.Ov.RepoDir, pkgDir)
	if err != nil {
		return "", err
	}
	var sb strings.Builder
	fmt.Fprintf(&sb, "package %s\n\nimport (\n\t\"testing\"\n\t\"%s\"\n)\n\n", pkgName, harnessPkg)
	sb.WriteString("func TestVerifReplay(t *testing.T) {\n\tzzverif.Run(map[string]func(){\n")
	for _, f := range funcs {
		fmt.Fprintf(&sb, "\t\t%q: %s,\n", f, f)
	}
	sb.WriteString("\t})\n}\n")
	testFile := filepath.Join(dir, "main_test.go")
	if err := os.WriteFile(testFile, []byte(sb.String()), 0o644); err != nil {
		return "", err
	}
	repl := map[string]string{}
	for v, r := range n.Ov.Files {
		repl[v] = r
	}
	repl[filepath.Join(n.Ov.RepoDir, pkgDir, "zz_verif_main_test.go")] = testFile
	ovJSON, _ := json.Marshal(map[string]interface{}{"Replace": repl})
	ovFile := filepath.Join(dir, "overlay.json")
	if err := os.WriteFile(ovFile, ovJSON, 0o644); err != nil {
		return "", err
	}
	bin := filepath.Join(dir, "replay.test")
	pat := "./" + pkgDir
	if pkgDir == "." {
		pat = "."
	}
	cmd := exec.Command("go", "test", "-c", "-vet=off", "-overlay", ovFile, "-o", bin, pat)
	cmd.Dir = n.Ov.RepoDir
	cmd.Env = goEnv()
	out, err := cmd.CombinedOutput()
	if err != nil {
		return "", fmt.Errorf("native build failed: %v\n%s", err, out)
	}
	return bin, nil
}

func packageName(repoDir, pkgDir string) (string, error) {
	ents, err := os.ReadDir(filepath.Join(repoDir, pkgDir))
	if err != nil {
		return "", err
	}
	for _, e := range ents {
		if strings.HasSuffix(e.Name(), ".go") && !strings.HasSuffix(e.Name(), "_test.go") {
			b, err := os.ReadFile(filepath.Join(repoDir, pkgDir, e.Name()))
			if err != nil {
				continue
			}
			for _, line := range strings.Split(string(b), "\n") {
				line = strings.TrimSpace(line)
				if strings.HasPrefix(line, "package ") {
					return strings.Fields(line)[1], nil
				}
			}
		}
	}
	return "", fmt.Errorf("no package clause in %s", pkgDir)
}

func (n *Native) Run(bin string, rc *ReplayCase, timeout time.Duration) NativeOutcome {
	f, err := os.CreateTemp(n.WorkDir, "case-*.json")
	if err != nil {
		return NativeOutcome{Outcome: "error", Detail: err.Error()}
	}
	b, _ := json.Marshal(rc)
	f.Write(b)
	f.Close()
	defer os.Remove(f.Name())
	return RunReplayFile(bin, f.Name(), filepath.Join(n.Ov.RepoDir, rc.Pkg), timeout)
}

func RunReplayFile(bin, file, dir string, timeout time.Duration) NativeOutcome {
	ctx, cancel := context.WithTimeout(context.Background(), timeout)
	defer cancel()
	cmd := exec.CommandContext(ctx, bin, "-test.run", "^TestVerifReplay$", "-test.timeout", "0")
	cmd.Dir = dir
	cmd.Env = append(os.Environ(), "VERIF_REPLAY="+file)
	var buf bytes.Buffer
	cmd.Stdout = &buf
	cmd.Stderr = &buf
	err := cmd.Run()
	out := buf.String()
	res := NativeOutcome{Output: out}
	for _, line := range strings.Split(out, "\n") {
		if strings.HasPrefix(line, "OBS ") {
			res.Observes = append(res.Observes, line[4:])
		}
	}
	if ctx.Err() == context.DeadlineExceeded {
		res.Outcome = "timeout"
		return res
	}
	for _, line := range strings.Split(out, "\n") {
		switch {
		case strings.HasPrefix(line, "VERIF-ASSERT-FAILED "):
			res.Outcome = "assert:" + strings.TrimPrefix(line, "VERIF-ASSERT-FAILED ")
			return res
		case strings.HasPrefix(line, "VERIF-ASSUME-FAILED"):
			res.Outcome = "assume"
			return res
		case strings.HasPrefix(line, "VERIF-PASS"):
			res.Outcome = "pass"
			return res
		case strings.HasPrefix(line, "VERIF-ERROR"):
			res.Outcome = "error"
			res.Detail = line
			return res
		}
	}
	if strings.Contains(out, "panic:") || strings.Contains(out, "fatal error:") {
		res.Outcome = "panic"
		for _, line := range strings.Split(out, "\n") {
			if strings.HasPrefix(line, "panic:") || strings.HasPrefix(line, "fatal error:") {
				res.Detail = line
				break
			}
		}
		return res
	}
	res.Outcome = "error"
	if err != nil {
		res.Detail = err.Error()
	}
	return res
}
