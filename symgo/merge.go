package symgo

import (
	"go/token"
	"go/types"

	"golang.org/x/tools/go/ssa"
)

// specAbort is raised when speculative (merged) execution meets something that is not pure.
type specAbort struct{}

type mergeInfo struct {
	ok    bool
	join  *ssa.BasicBlock
	order []*ssa.BasicBlock // region blocks in topological order
}

// postDoms computes immediate post-dominators (index of block, -1 = virtual exit).
func postDoms(fn *ssa.Function) []int {
	n := len(fn.Blocks)
	const exit = -1
	// order: reverse postorder on reversed graph, simple iterative dataflow on sets for small n
	// Use the classic iterative algorithm with bitsets.
	words := (n + 63) / 64
	full := make([]uint64, words)
	for i := 0; i < n; i++ {
		full[i/64] |= 1 << uint(i%64)
	}
	pd := make([][]uint64, n)
	for i := range pd {
		pd[i] = append([]uint64(nil), full...)
	}
	changed := true
	for changed {
		changed = false
		for i := n - 1; i >= 0; i-- {
			b := fn.Blocks[i]
			nw := make([]uint64, words)
			if len(b.Succs) == 0 {
				// only itself
			} else {
				copy(nw, full)
				for _, s := range b.Succs {
					for w := 0; w < words; w++ {
						nw[w] &= pd[s.Index][w]
					}
				}
			}
			nw[i/64] |= 1 << uint(i%64)
			for w := 0; w < words; w++ {
				if nw[w] != pd[i][w] {
					changed = true
				}
			}
			pd[i] = nw
		}
	}
	// immediate post-dominator: the strict post-dominator that is post-dominated by all other
	// strict post-dominators, i.e. the one with the largest pdom set
	count := func(s []uint64) int {
		c := 0
		for _, w := range s {
			for ; w != 0; w &= w - 1 {
				c++
			}
		}
		return c
	}
	ip := make([]int, n)
	for i := 0; i < n; i++ {
		ip[i] = exit
		best := -1
		for j := 0; j < n; j++ {
			if j == i || pd[i][j/64]&(1<<uint(j%64)) == 0 {
				continue
			}
			c := count(pd[j])
			if c > best {
				best = c
				ip[i] = j
			}
		}
	}
	return ip
}

func pureInstr(instr ssa.Instruction) bool {
	switch i := instr.(type) {
	case *ssa.DebugRef, *ssa.Phi, *ssa.Jump, *ssa.If:
		return true
	case *ssa.BinOp:
		switch i.Op {
		case token.QUO, token.REM:
			if _, _, ok := intInfo(i.X.Type()); ok {
				c, isC := i.Y.(*ssa.Const)
				if !isC || c.Value == nil || c.Uint64() == 0 && c.Int64() == 0 {
					return false
				}
			}
		}
		// string concatenation etc. are fine; comparisons of interfaces may call nothing
		return true
	case *ssa.UnOp:
		return i.Op != token.ARROW
	case *ssa.Convert:
		_, _, fi := intInfo(i.X.Type())
		_, _, ti := intInfo(i.Type())
		return (fi || isFloat(i.X.Type())) && (ti || isFloat(i.Type()))
	case *ssa.ChangeType, *ssa.Field, *ssa.FieldAddr, *ssa.Extract, *ssa.MakeInterface, *ssa.ChangeInterface:
		return true
	case *ssa.IndexAddr, *ssa.Index:
		return true // checked dynamically (aborts if it could panic or fork)
	case *ssa.Call:
		if b, ok := i.Call.Value.(*ssa.Builtin); ok {
			switch b.Name() {
			case "len", "cap":
				return true
			}
		}
		return false
	}
	return false
}

func (in *Interp) analyseMerge(fn *ssa.Function, x *ssa.BasicBlock) *mergeInfo {
	mi := &mergeInfo{}
	ip, ok := in.pdoms[fn]
	if !ok {
		ip = postDoms(fn)
		in.pdoms[fn] = ip
	}
	j := ip[x.Index]
	if j < 0 || j <= x.Index {
		return mi
	}
	join := fn.Blocks[j]
	// collect region
	region := map[*ssa.BasicBlock]bool{}
	var order []*ssa.BasicBlock
	state := map[*ssa.BasicBlock]int{}
	bad := false
	var dfs func(b *ssa.BasicBlock)
	dfs = func(b *ssa.BasicBlock) {
		if bad || b == join {
			return
		}
		if b == x || b.Index <= x.Index {
			bad = true
			return
		}
		switch state[b] {
		case 1:
			bad = true // cycle
			return
		case 2:
			return
		}
		state[b] = 1
		region[b] = true
		if len(region) > 12 {
			bad = true
			return
		}
		for _, s := range b.Succs {
			dfs(s)
		}
		state[b] = 2
		order = append(order, b)
	}
	for _, s := range x.Succs {
		dfs(s)
	}
	if bad {
		return mi
	}
	// reverse postorder = topological
	for l, r := 0, len(order)-1; l < r; l, r = l+1, r-1 {
		order[l], order[r] = order[r], order[l]
	}
	for _, b := range order {
		for _, p := range b.Preds {
			if p != x && !region[p] {
				return mi
			}
		}
		if len(b.Succs) == 0 {
			return mi
		}
		for _, instr := range b.Instrs {
			if !pureInstr(instr) {
				return mi
			}
		}
	}
	for _, p := range join.Preds {
		if p != x && !region[p] {
			return mi
		}
	}
	// join phis must be of mergeable (scalar-ish) type
	mi.ok = true
	mi.join = join
	mi.order = order
	return mi
}

type edge struct{ from, to *ssa.BasicBlock }

func (in *Interp) mergeDiamond(fr *frame, i *ssa.If, c *Term) (done bool) {
	x := fr.block
	key := x
	mi, ok := in.merges[key]
	if !ok {
		mi = in.analyseMerge(fr.fn, x)
		in.merges[key] = mi
	}
	if !mi.ok {
		return false
	}
	saveBlock := fr.block
	defer func() {
		in.spec = false
		if r := recover(); r != nil {
			switch r.(type) {
			case specAbort, pathEnd, *goPanic:
				fr.block = saveBlock
				done = false
				return
			}
			panic(r)
		}
	}()
	in.spec = true
	guards := map[edge]*Term{}
	guards[edge{x, x.Succs[0]}] = c
	if x.Succs[0] == x.Succs[1] {
		return false
	}
	guards[edge{x, x.Succs[1]}] = in.tt.Not(c)
	blockGuard := func(b *ssa.BasicBlock) *Term {
		g := in.tt.False
		for _, p := range b.Preds {
			if eg, ok := guards[edge{p, b}]; ok {
				g = in.tt.Or(g, eg)
			}
		}
		return g
	}
	phis := func(b *ssa.BasicBlock) {
		for _, instr := range b.Instrs {
			phi, ok := instr.(*ssa.Phi)
			if !ok {
				break
			}
			var val Value
			have := false
			for k, p := range b.Preds {
				eg, ok := guards[edge{p, b}]
				if !ok || eg.IsConst() && eg.K == 0 {
					continue
				}
				v := fr.get(phi.Edges[k])
				if !have {
					val, have = v, true
				} else {
					val = in.mergeVal(eg, v, val, phi.Type())
				}
			}
			if !have {
				val = zero(phi.Type())
			}
			fr.env[phi] = val
		}
	}
	for _, b := range mi.order {
		g := blockGuard(b)
		if g.IsConst() && g.K == 0 {
			continue
		}
		phis(b)
		fr.block = b
		for _, instr := range b.Instrs {
			switch t := instr.(type) {
			case *ssa.Phi, *ssa.DebugRef:
				continue
			case *ssa.Jump:
				guards[edge{b, b.Succs[0]}] = g
			case *ssa.If:
				cv := fr.get(t.Cond)
				ct := in.boolTerm(cv)
				if b.Succs[0] == b.Succs[1] {
					guards[edge{b, b.Succs[0]}] = g
				} else {
					guards[edge{b, b.Succs[0]}] = in.tt.And(g, ct)
					guards[edge{b, b.Succs[1]}] = in.tt.And(g, in.tt.Not(ct))
				}
			default:
				in.steps++
				in.exec(fr, instr)
			}
		}
	}
	fr.block = saveBlock
	phis(mi.join)
	in.spec = false
	// transfer control to the join with phis already computed
	fr.prev = nil
	for _, p := range mi.join.Preds {
		if _, ok := guards[edge{p, mi.join}]; ok {
			fr.prev = p
			break
		}
	}
	fr.block = mi.join
	fr.phiDone = mi.join
	in.ex.noteMerge()
	return true
}

var _ = types.Typ
