package symgo

import (
	"fmt"
	"os"
	"path/filepath"
	"sort"
	"strings"

	"golang.org/x/tools/go/packages"
	"golang.org/x/tools/go/ssa"
	"golang.org/x/tools/go/ssa/ssautil"
)

// Overlay describes harness files injected into the repository tree.
type Overlay struct {
	RepoDir    string
	HarnessDir string
	Files      map[string]string // virtual path under RepoDir -> real path
}

// pkgDirName maps a repo-relative package dir to the harness directory name.
func pkgDirName(rel string) string {
	if rel == "." || rel == "" {
		return "root"
	}
	return rel
}

// BuildOverlay collects harness files for the given repo-relative package dirs plus zzverif.
func BuildOverlay(repoDir, harnessDir string, pkgDirs []string) (*Overlay, error) {
	ov := &Overlay{RepoDir: repoDir, HarnessDir: harnessDir, Files: map[string]string{}}
	add := func(rel string, srcDir string) error {
		ents, err := os.ReadDir(srcDir)
		if err != nil {
			return err
		}
		for _, e := range ents {
			if e.IsDir() || !strings.HasSuffix(e.Name(), ".go") {
				continue
			}
			name := e.Name()
			if rel != "zzverif" {
				name = "zz_verif_" + name
			}
			ov.Files[filepath.Join(repoDir, rel, name)] = filepath.Join(srcDir, e.Name())
		}
		return nil
	}
	if err := add("zzverif", filepath.Join(harnessDir, "zzverif")); err != nil {
		return nil, err
	}
	for _, d := range pkgDirs {
		if err := add(d, filepath.Join(harnessDir, pkgDirName(d))); err != nil {
			return nil, err
		}
	}
	return ov, nil
}

func goEnv() []string {
	env := os.Environ()
	env = append(env, "GOFLAGS=-mod=mod", "GOPROXY=off", "GOSUMDB=off", "GOTOOLCHAIN=local", "CGO_ENABLED=0")
	return env
}

type Loaded struct {
	Prog *ssa.Program
	Pkgs map[string]*ssa.Package // repo-relative dir -> package
}

// Load type-checks and builds SSA for the given package dirs of the repository (with the
// overlay applied) and all their dependencies. Nothing is cached between runs.
func Load(ov *Overlay, pkgDirs []string) (*Loaded, error) {
	overlay := map[string][]byte{}
	for v, r := range ov.Files {
		b, err := os.ReadFile(r)
		if err != nil {
			return nil, err
		}
		overlay[v] = b
	}
	var patterns []string
	for _, d := range pkgDirs {
		if d == "." {
			patterns = append(patterns, ".")
		} else {
			patterns = append(patterns, "./"+d)
		}
	}
	patterns = append(patterns, "./zzverif")
	cfg := &packages.Config{
		Mode:    packages.LoadAllSyntax,
		Dir:     ov.RepoDir,
		Env:     goEnv(),
		Overlay: overlay,
	}
	pkgs, err := packages.Load(cfg, patterns...)
	if err != nil {
		return nil, err
	}
	var errs []string
	packages.Visit(pkgs, nil, func(p *packages.Package) {
		for _, e := range p.Errors {
			errs = append(errs, e.Error())
		}
	})
	if len(errs) > 0 {
		sort.Strings(errs)
		if len(errs) > 10 {
			errs = errs[:10]
		}
		return nil, fmt.Errorf("load errors:\n%s", strings.Join(errs, "\n"))
	}
	prog, spkgs := ssautil.AllPackages(pkgs, ssa.InstantiateGenerics)
	prog.Build()
	ld := &Loaded{Prog: prog, Pkgs: map[string]*ssa.Package{}}
	for i, p := range pkgs {
		if spkgs[i] == nil {
			return nil, fmt.Errorf("no SSA for %s", p.PkgPath)
		}
		rel := strings.TrimPrefix(strings.TrimPrefix(p.PkgPath, repoMod), "/")
		if rel == "" {
			rel = "."
		}
		ld.Pkgs[rel] = spkgs[i]
	}
	return ld, nil
}
