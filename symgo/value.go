package symgo

import (
	"fmt"
	"go/types"
	"math"
	"strings"

	"golang.org/x/tools/go/ssa"
)

// Value is the dynamic value of the interpreter.
//
//	integers: uint64 (bit pattern zero-extended, width/sign from static type) | *Term (BV w)
//	bool:     bool | *Term (Bool)
//	floats:   float64 | *Term (Real)
//	complex:  unsupported
//	string:   string | *SymStr
//	pointer:  *Value | *SymPtr          (nil pointer: (*Value)(nil))
//	struct:   Struct, array: Array (value semantics: copied on load/store)
//	slice:    Slice (Go slice sharing its backing array)
//	map:      *Map, chan: *Chan, func: *Closure / *ssa.Builtin
//	interface: Iface
//	tuple:    Tuple
type Value interface{}

type Struct []Value
type Array []Value
type Slice []Value
type Tuple []Value

type Iface struct {
	T types.Type // nil => nil interface
	V Value
}

type Closure struct {
	Fn  *ssa.Function
	Env []Value
}

// SymStr is a string of concrete length whose bytes are uint64 or *Term (BV 8).
type SymStr struct {
	B []Value
}

type cand struct {
	g *Term
	p *Value
}

// SymPtr is a pointer that is one of several concrete locations, selected by
// mutually exclusive guards that cover every case under the path condition.
type SymPtr struct {
	c []cand
}

type mapEntry struct {
	k, v    Value
	deleted bool
}

type Map struct {
	idx     map[string]int
	entries []*mapEntry
	n       int
	symKeys bool
}

type Chan struct {
	buf                                 []Value
	cap                                 int
	closed                              bool
	id                                  int
	pendingSync, recvCount, recvWaiting int
}

// LazySlice is a zero-initialised slice of symbolic (or very large) length: a write log
// instead of storage. Only len, indexing, element load and element store are supported.
type LazySlice struct {
	length *Term // BV64
	elem   types.Type
	writes []lazyWrite
}

type lazyWrite struct {
	idx *Term // BV64
	val Value
}

type LazyPtr struct {
	ls   *LazySlice
	idx  *Term
	path []int // field path inside the element
}

type rangeIter struct {
	// string
	str Value
	pos int
	// map
	m    *Map
	snap []*mapEntry
	i    int
}

// ---------------------------------------------------------------- types

func under(t types.Type) types.Type { return t.Underlying() }

// intInfo returns width and signedness of an integer (or bool => not ok) type.
func intInfo(t types.Type) (w uint8, signed bool, ok bool) {
	b, isb := under(t).(*types.Basic)
	if !isb {
		return 0, false, false
	}
	switch b.Kind() {
	case types.Int8:
		return 8, true, true
	case types.Int16:
		return 16, true, true
	case types.Int32:
		return 32, true, true
	case types.Int64, types.Int, types.UntypedInt, types.UntypedRune:
		if b.Kind() == types.UntypedRune {
			return 32, true, true
		}
		return 64, true, true
	case types.Uint8:
		return 8, false, true
	case types.Uint16:
		return 16, false, true
	case types.Uint32:
		return 32, false, true
	case types.Uint64, types.Uint, types.Uintptr:
		return 64, false, true
	}
	return 0, false, false
}

func isFloat(t types.Type) bool {
	b, ok := under(t).(*types.Basic)
	return ok && b.Info()&types.IsFloat != 0
}

func isString(t types.Type) bool {
	b, ok := under(t).(*types.Basic)
	return ok && b.Info()&types.IsString != 0
}

func isBool(t types.Type) bool {
	b, ok := under(t).(*types.Basic)
	return ok && b.Info()&types.IsBoolean != 0
}

func zero(t types.Type) Value {
	switch u := under(t).(type) {
	case *types.Basic:
		switch {
		case u.Kind() == types.UntypedNil:
			return (*Value)(nil)
		case u.Info()&types.IsBoolean != 0:
			return false
		case u.Info()&types.IsInteger != 0:
			return uint64(0)
		case u.Info()&types.IsFloat != 0:
			return float64(0)
		case u.Info()&types.IsString != 0:
			return ""
		case u.Kind() == types.UnsafePointer:
			return (*Value)(nil)
		}
		panic(fmt.Sprintf("zero: basic %v", u))
	case *types.Pointer:
		return (*Value)(nil)
	case *types.Struct:
		s := make(Struct, u.NumFields())
		for i := range s {
			s[i] = zero(u.Field(i).Type())
		}
		return s
	case *types.Array:
		a := make(Array, u.Len())
		if u.Len() > 0 {
			z := zero(u.Elem())
			for i := range a {
				a[i] = copyVal(z)
			}
		}
		return a
	case *types.Slice:
		return Slice(nil)
	case *types.Map:
		return (*Map)(nil)
	case *types.Chan:
		return (*Chan)(nil)
	case *types.Signature:
		return (*Closure)(nil)
	case *types.Interface:
		return Iface{}
	case *types.Tuple:
		tu := make(Tuple, u.Len())
		for i := range tu {
			tu[i] = zero(u.At(i).Type())
		}
		return tu
	}
	panic(fmt.Sprintf("zero: %T %v", t, t))
}

// copyVal copies struct/array values (value semantics); everything else is immutable or a reference.
func copyVal(v Value) Value {
	switch v := v.(type) {
	case Struct:
		n := make(Struct, len(v))
		for i, f := range v {
			n[i] = copyVal(f)
		}
		return n
	case Array:
		n := make(Array, len(v))
		for i, f := range v {
			n[i] = copyVal(f)
		}
		return n
	case Iface:
		if _, ok := v.V.(Struct); ok {
			return Iface{v.T, copyVal(v.V)}
		}
		if _, ok := v.V.(Array); ok {
			return Iface{v.T, copyVal(v.V)}
		}
		return v
	}
	return v
}

// ---------------------------------------------------------------- strings

func strLen(v Value) int {
	switch s := v.(type) {
	case string:
		return len(s)
	case *SymStr:
		return len(s.B)
	}
	panic(fmt.Sprintf("strLen %T", v))
}

func strByte(v Value, i int) Value {
	switch s := v.(type) {
	case string:
		return uint64(s[i])
	case *SymStr:
		return s.B[i]
	}
	panic("strByte")
}

func strBytes(v Value) []Value {
	switch s := v.(type) {
	case string:
		b := make([]Value, len(s))
		for i := 0; i < len(s); i++ {
			b[i] = uint64(s[i])
		}
		return b
	case *SymStr:
		return s.B
	}
	panic(fmt.Sprintf("strBytes %T", v))
}

// mkStr builds a string value from bytes, collapsing to a Go string when fully concrete.
func mkStr(b []Value) Value {
	conc := true
	for _, x := range b {
		if _, ok := x.(uint64); !ok {
			conc = false
			break
		}
	}
	if conc {
		var sb strings.Builder
		sb.Grow(len(b))
		for _, x := range b {
			sb.WriteByte(byte(x.(uint64)))
		}
		return sb.String()
	}
	nb := make([]Value, len(b))
	copy(nb, b)
	return &SymStr{B: nb}
}

func strSlice(v Value, lo, hi int) Value {
	switch s := v.(type) {
	case string:
		return s[lo:hi]
	case *SymStr:
		return mkStr(s.B[lo:hi])
	}
	panic("strSlice")
}

func strConcat(a, b Value) Value {
	if x, ok := a.(string); ok {
		if y, ok := b.(string); ok {
			return x + y
		}
	}
	ba, bb := strBytes(a), strBytes(b)
	n := make([]Value, 0, len(ba)+len(bb))
	n = append(n, ba...)
	n = append(n, bb...)
	return mkStr(n)
}

// ---------------------------------------------------------------- maps

func newMap() *Map { return &Map{idx: map[string]int{}} }

// keyString canonicalises a fully concrete key; ok=false if the key contains symbolic parts.
func keyString(k Value) (string, bool) {
	switch k := k.(type) {
	case uint64:
		return fmt.Sprintf("i%d", k), true
	case bool:
		if k {
			return "bt", true
		}
		return "bf", true
	case float64:
		return fmt.Sprintf("f%x", math.Float64bits(k)), true
	case string:
		return "s" + k, true
	case *Value:
		return fmt.Sprintf("p%p", k), true
	case *Chan:
		return fmt.Sprintf("c%p", k), true
	case Iface:
		if k.T == nil {
			return "nil", true
		}
		s, ok := keyString(k.V)
		return "I" + k.T.String() + ":" + s, ok
	case Struct:
		var sb strings.Builder
		sb.WriteString("S{")
		for _, f := range k {
			s, ok := keyString(f)
			if !ok {
				return "", false
			}
			fmt.Fprintf(&sb, "%d:%s,", len(s), s)
		}
		sb.WriteString("}")
		return sb.String(), true
	case Array:
		var sb strings.Builder
		sb.WriteString("A[")
		for _, f := range k {
			s, ok := keyString(f)
			if !ok {
				return "", false
			}
			fmt.Fprintf(&sb, "%d:%s,", len(s), s)
		}
		sb.WriteString("]")
		return sb.String(), true
	}
	return "", false
}

func (m *Map) live() []*mapEntry {
	out := make([]*mapEntry, 0, m.n)
	for _, e := range m.entries {
		if !e.deleted {
			out = append(out, e)
		}
	}
	return out
}

func (m *Map) getConc(ks string) *mapEntry {
	if i, ok := m.idx[ks]; ok {
		return m.entries[i]
	}
	return nil
}

func (m *Map) setConc(ks string, k, v Value) {
	if i, ok := m.idx[ks]; ok {
		m.entries[i].v = v
		return
	}
	m.idx[ks] = len(m.entries)
	m.entries = append(m.entries, &mapEntry{k: k, v: v})
	m.n++
}

func (m *Map) delConc(ks string) {
	if i, ok := m.idx[ks]; ok {
		m.entries[i].deleted = true
		delete(m.idx, ks)
		m.n--
	}
}

// ---------------------------------------------------------------- debug printing

func showVal(v Value) string {
	switch v := v.(type) {
	case nil:
		return "<nil>"
	case uint64:
		return fmt.Sprint(v)
	case bool, float64:
		return fmt.Sprint(v)
	case string:
		return fmt.Sprintf("%q", v)
	case *Term:
		return v.String()
	case *SymStr:
		return fmt.Sprintf("symstr[%d]", len(v.B))
	case Struct:
		var sb strings.Builder
		sb.WriteString("{")
		for i, f := range v {
			if i > 0 {
				sb.WriteString(" ")
			}
			if i > 12 {
				sb.WriteString("...")
				break
			}
			sb.WriteString(showVal(f))
		}
		sb.WriteString("}")
		return sb.String()
	case Array:
		return fmt.Sprintf("array[%d]", len(v))
	case Slice:
		return fmt.Sprintf("slice[%d]", len(v))
	case Iface:
		if v.T == nil {
			return "nil-iface"
		}
		return "iface(" + v.T.String() + ")"
	case *Value:
		if v == nil {
			return "nilptr"
		}
		return fmt.Sprintf("ptr(%p)", v)
	}
	return fmt.Sprintf("%T", v)
}
