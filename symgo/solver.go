package symgo

import (
	"bufio"
	"context"
	"fmt"
	"io"
	"math/big"
	"os/exec"
	"strings"
	"time"
)

// Solver wraps one long-lived `z3 -in` process.
type Solver struct {
	cmd  *exec.Cmd
	in   io.WriteCloser
	out  *bufio.Reader
	bin  string
	args []string
	// emission scopes: per push level, the term IDs defined and names declared there
	scopes []map[int]bool
	decls  []map[string]bool
	Stats  SolverStats
	Log    io.Writer
}

type SolverStats struct {
	Sat, Unsat, Unknown, Errors int
	Time                        time.Duration
}

func (s *SolverStats) Add(o SolverStats) {
	s.Sat += o.Sat
	s.Unsat += o.Unsat
	s.Unknown += o.Unknown
	s.Errors += o.Errors
	s.Time += o.Time
}

func NewSolver(bin string, args ...string) (*Solver, error) {
	s := &Solver{bin: bin, args: args}
	if err := s.start(); err != nil {
		return nil, err
	}
	return s, nil
}

func (s *Solver) start() error {
	s.cmd = exec.Command(s.bin, s.args...)
	in, err := s.cmd.StdinPipe()
	if err != nil {
		return err
	}
	out, err := s.cmd.StdoutPipe()
	if err != nil {
		return err
	}
	s.cmd.Stderr = nil
	if err := s.cmd.Start(); err != nil {
		return err
	}
	s.in = in
	s.out = bufio.NewReaderSize(out, 1<<16)
	s.scopes = []map[int]bool{{}}
	s.decls = []map[string]bool{{}}
	s.send("(set-option :print-success false)\n(set-option :produce-models true)\n")
	return nil
}

func (s *Solver) Close() {
	if s.cmd != nil {
		s.in.Close()
		s.cmd.Process.Kill()
		s.cmd.Wait()
		s.cmd = nil
	}
}

// Restart kills and restarts the process (after an error or timeout), losing all state.
func (s *Solver) Restart() error {
	s.Close()
	return s.start()
}

func (s *Solver) send(txt string) {
	if s.Log != nil {
		io.WriteString(s.Log, txt)
	}
	io.WriteString(s.in, txt)
}

// roundTrip sends text followed by an echo marker and collects the output lines before it.
func (s *Solver) roundTrip(txt string) ([]string, error) {
	s.send(txt + "(echo \"@@\")\n")
	var lines []string
	for {
		line, err := s.out.ReadString('\n')
		if err != nil {
			return lines, fmt.Errorf("solver died: %v", err)
		}
		line = strings.TrimRight(line, "\r\n")
		if line == "@@" || line == "\"@@\"" {
			return lines, nil
		}
		lines = append(lines, line)
	}
}

func (s *Solver) Push() {
	s.send("(push 1)\n")
	s.scopes = append(s.scopes, map[int]bool{})
	s.decls = append(s.decls, map[string]bool{})
}

func (s *Solver) Pop() {
	s.send("(pop 1)\n")
	s.scopes = s.scopes[:len(s.scopes)-1]
	s.decls = s.decls[:len(s.decls)-1]
}

func (s *Solver) Depth() int { return len(s.scopes) - 1 }

func (s *Solver) defined(id int) bool {
	for _, sc := range s.scopes {
		if sc[id] {
			return true
		}
	}
	return false
}

// define emits declarations/definitions needed for t in the current scope.
func (s *Solver) define(t *Term, sb *strings.Builder) {
	if t.Op == OpVar {
		for _, d := range s.decls {
			if d[t.Name] {
				return
			}
		}
		s.decls[len(s.decls)-1][t.Name] = true
		fmt.Fprintf(sb, "(declare-const %s %s)\n", smtName(t.Name), sortStr(t.W))
		return
	}
	if isLeaf(t) {
		return
	}
	if s.defined(t.ID) {
		return
	}
	for i := 0; i < int(t.N); i++ {
		s.define(t.A[i], sb)
	}
	fmt.Fprintf(sb, "(define-fun t%d () %s %s)\n", t.ID, sortStr(t.W), termBody(t))
	s.scopes[len(s.scopes)-1][t.ID] = true
}

// Assert adds a boolean term to the current scope.
func (s *Solver) Assert(t *Term) {
	var sb strings.Builder
	s.define(t, &sb)
	fmt.Fprintf(&sb, "(assert %s)\n", termRef(t))
	s.send(sb.String())
}

type SatResult int

const (
	Unsat SatResult = iota
	Sat
	Unknown
)

// Check runs check-sat under the current assertions plus the extra assumptions (in a
// temporary scope). If sat and vars != nil the model restricted to vars is returned.
func (s *Solver) Check(extra []*Term, vars []*Term) (SatResult, Model, error) {
	var sb strings.Builder
	for _, e := range extra {
		s.define(e, &sb) // definitions stay in the enclosing scope
	}
	for _, v := range vars {
		s.define(v, &sb)
	}
	if len(extra) > 0 {
		sb.WriteString("(push 1)\n")
		for _, e := range extra {
			fmt.Fprintf(&sb, "(assert %s)\n", termRef(e))
		}
	}
	sb.WriteString("(check-sat)\n")
	t0 := time.Now()
	lines, err := s.roundTrip(sb.String())
	s.Stats.Time += time.Since(t0)
	res := Unknown
	if err != nil {
		s.Stats.Errors++
		return Unknown, nil, err
	}
	bad := false
	for _, l := range lines {
		switch {
		case l == "sat":
			res = Sat
		case l == "unsat":
			res = Unsat
		case l == "unknown", l == "timeout":
			res = Unknown
		case strings.Contains(l, "(error"):
			bad = true
		}
	}
	var model Model
	if bad {
		s.Stats.Errors++
		res = Unknown
		err = fmt.Errorf("solver error: %s", strings.Join(lines, " | "))
	}
	if res == Sat && vars != nil && len(vars) > 0 {
		var q strings.Builder
		q.WriteString("(get-value (")
		for _, v := range vars {
			q.WriteString(termRef(v) + " ")
		}
		q.WriteString("))\n")
		t0 := time.Now()
		ml, e2 := s.roundTrip(q.String())
		s.Stats.Time += time.Since(t0)
		if e2 != nil {
			return Unknown, nil, e2
		}
		model, e2 = parseModel(strings.Join(ml, " "), vars)
		if e2 != nil {
			s.Stats.Errors++
			return Unknown, nil, e2
		}
	} else if res == Sat {
		model = Model{}
	}
	if len(extra) > 0 {
		s.send("(pop 1)\n")
	}
	switch res {
	case Sat:
		s.Stats.Sat++
	case Unsat:
		s.Stats.Unsat++
	default:
		s.Stats.Unknown++
	}
	return res, model, err
}

// ---------------------------------------------------------------- s-expression model parsing

type sexp struct {
	atom string
	list []*sexp
}

func parseSexp(s string) (*sexp, error) {
	pos := 0
	var rec func() (*sexp, error)
	skip := func() {
		for pos < len(s) && (s[pos] == ' ' || s[pos] == '\n' || s[pos] == '\t' || s[pos] == '\r') {
			pos++
		}
	}
	rec = func() (*sexp, error) {
		skip()
		if pos >= len(s) {
			return nil, fmt.Errorf("eof")
		}
		if s[pos] == '(' {
			pos++
			n := &sexp{list: []*sexp{}}
			for {
				skip()
				if pos >= len(s) {
					return nil, fmt.Errorf("unbalanced")
				}
				if s[pos] == ')' {
					pos++
					return n, nil
				}
				c, err := rec()
				if err != nil {
					return nil, err
				}
				n.list = append(n.list, c)
			}
		}
		st := pos
		if s[pos] == '|' {
			pos++
			for pos < len(s) && s[pos] != '|' {
				pos++
			}
			pos++
			return &sexp{atom: s[st:pos]}, nil
		}
		for pos < len(s) && s[pos] != ' ' && s[pos] != '(' && s[pos] != ')' && s[pos] != '\n' {
			pos++
		}
		return &sexp{atom: s[st:pos]}, nil
	}
	return rec()
}

func sexpRat(e *sexp) (*big.Rat, error) {
	if e.list == nil {
		a := e.atom
		switch {
		case a == "true":
			return ratU(1), nil
		case a == "false":
			return ratU(0), nil
		case strings.HasPrefix(a, "#x"):
			z, ok := new(big.Int).SetString(a[2:], 16)
			if !ok {
				return nil, fmt.Errorf("bad hex %s", a)
			}
			return new(big.Rat).SetInt(z), nil
		case strings.HasPrefix(a, "#b"):
			z, ok := new(big.Int).SetString(a[2:], 2)
			if !ok {
				return nil, fmt.Errorf("bad bin %s", a)
			}
			return new(big.Rat).SetInt(z), nil
		default:
			a = strings.TrimSuffix(a, "?")
			r, ok := new(big.Rat).SetString(a)
			if !ok {
				return nil, fmt.Errorf("bad number %q", a)
			}
			return r, nil
		}
	}
	if len(e.list) == 2 && e.list[0].atom == "-" {
		r, err := sexpRat(e.list[1])
		if err != nil {
			return nil, err
		}
		return new(big.Rat).Neg(r), nil
	}
	if len(e.list) == 3 && e.list[0].atom == "/" {
		a, err := sexpRat(e.list[1])
		if err != nil {
			return nil, err
		}
		b, err := sexpRat(e.list[2])
		if err != nil {
			return nil, err
		}
		if b.Sign() == 0 {
			return nil, fmt.Errorf("div by zero in model")
		}
		return new(big.Rat).Quo(a, b), nil
	}
	if len(e.list) == 3 && e.list[0].atom == "_" && strings.HasPrefix(e.list[1].atom, "bv") {
		z, ok := new(big.Int).SetString(e.list[1].atom[2:], 10)
		if !ok {
			return nil, fmt.Errorf("bad bv literal")
		}
		return new(big.Rat).SetInt(z), nil
	}
	return nil, fmt.Errorf("unparsed model value")
}

func parseModel(txt string, vars []*Term) (Model, error) {
	e, err := parseSexp(txt)
	if err != nil {
		return nil, fmt.Errorf("model parse: %v in %q", err, txt)
	}
	if len(e.list) != len(vars) {
		return nil, fmt.Errorf("model arity %d != %d: %q", len(e.list), len(vars), txt)
	}
	m := Model{}
	for i, p := range e.list {
		if len(p.list) != 2 {
			return nil, fmt.Errorf("model pair")
		}
		r, err := sexpRat(p.list[1])
		if err != nil {
			return nil, fmt.Errorf("%v in %q", err, txt)
		}
		m[vars[i].Name] = r
	}
	return m, nil
}

// Fallback decides one query from scratch with cvc5's integer encoding of bit-vector
// arithmetic (--solve-bv-as-int=sum), which decides multiply/divide-by-constant kernels that
// stall bit-blasting. asserts is the whole path condition plus the query.
func Fallback(asserts []*Term, vars []*Term, timeout time.Duration) (SatResult, Model, error) {
	var sb strings.Builder
	sb.WriteString("(set-logic ALL)\n(set-option :produce-models true)\n")
	done := map[int]bool{}
	decl := map[string]bool{}
	var def func(t *Term)
	def = func(t *Term) {
		if t.Op == OpVar {
			if !decl[t.Name] {
				decl[t.Name] = true
				fmt.Fprintf(&sb, "(declare-const %s %s)\n", smtName(t.Name), sortStr(t.W))
			}
			return
		}
		if isLeaf(t) || done[t.ID] {
			return
		}
		for i := 0; i < int(t.N); i++ {
			def(t.A[i])
		}
		body := strings.ReplaceAll(termBody(t), "bv2int", "bv2nat")
		fmt.Fprintf(&sb, "(define-fun t%d () %s %s)\n", t.ID, sortStr(t.W), body)
		done[t.ID] = true
	}
	for _, a := range asserts {
		def(a)
	}
	for _, v := range vars {
		def(v)
	}
	for _, a := range asserts {
		fmt.Fprintf(&sb, "(assert %s)\n", termRef(a))
	}
	sb.WriteString("(check-sat)\n")
	if len(vars) > 0 {
		sb.WriteString("(get-value (")
		for _, v := range vars {
			sb.WriteString(termRef(v) + " ")
		}
		sb.WriteString("))\n")
	}
	ctx, cancel := context.WithTimeout(context.Background(), timeout)
	defer cancel()
	cmd := exec.CommandContext(ctx, "cvc5", "--solve-bv-as-int=sum", "--lang=smt2", "-")
	cmd.Stdin = strings.NewReader(sb.String())
	out, err := cmd.Output()
	txt := string(out)
	first := strings.TrimSpace(txt)
	if i := strings.Index(first, "\n"); i >= 0 {
		first = first[:i]
	}
	switch first {
	case "unsat":
		return Unsat, nil, nil
	case "sat":
		rest := txt[strings.Index(txt, "sat")+3:]
		if len(vars) == 0 {
			return Sat, Model{}, nil
		}
		if strings.Contains(rest, "(error") {
			return Unknown, nil, fmt.Errorf("cvc5 model error: %s", rest)
		}
		m, e := parseModel(rest, vars)
		if e != nil {
			return Unknown, nil, e
		}
		return Sat, m, nil
	}
	if err == nil {
		err = fmt.Errorf("cvc5: %s", first)
	}
	return Unknown, nil, err
}
