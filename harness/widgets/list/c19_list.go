package list

import (
	"git.sr.ht/~rockorager/vaxis"
	"git.sr.ht/~rockorager/vaxis/zzverif"
)

var verifItemSets = [][]string{{}, {"a"}, {"a", "b"}, {"a", "b", "c"}, {"a", "b", "c", "d", "e"}}

func verifInv(m *List) bool {
	n := len(m.items)
	if n == 0 {
		return m.index == 0 && m.offset == 0
	}
	return m.index >= 0 && m.index < n && m.offset >= 0 && m.offset <= m.index
}

// VerifC19List: one operation from an arbitrary state satisfying the invariant (index in
// range or 0 for an empty list; 0 <= offset <= index), then Draw into a window of free
// height: no panic, the invariant holds again, the selected item is inside the viewport.
func VerifC19List() {
	items := verifItemSets[zzverif.Choose("items", len(verifItemSets))]
	m := New(items)
	m.index = zzverif.Int("index")
	m.offset = zzverif.Int("offset")
	zzverif.Assume(verifInv(&m))
	vx := vaxis.VerifBare(4, 6)
	h := int(zzverif.Byte("h"))
	zzverif.Assume(h >= 0 && h <= 6)
	win := vx.Window().New(0, 0, 4, h)
	switch zzverif.Choose("op", 8) {
	case 0:
		m.Down()
	case 1:
		m.Up()
	case 2:
		m.Home()
	case 3:
		m.End()
	case 4:
		m.PageDown(win)
	case 5:
		m.PageUp(win)
	case 6:
		m.SetItems(verifItemSets[zzverif.Choose("newitems", len(verifItemSets))])
	case 7:
	}
	n := len(m.items)
	zzverif.Assert(n == 0 && m.index == 0 || m.index >= 0 && m.index < n, "selected-index-in-range")
	m.Draw(win)
	zzverif.Assert(n == 0 && m.index == 0 || m.index >= 0 && m.index < n, "selected-index-in-range-after-draw")
	if n > 0 && h > 0 {
		zzverif.Assert(m.offset >= 0 && m.index >= m.offset && m.index < m.offset+h, "selected-item-inside-viewport")
	}
	zzverif.Reach("end")
}
