package scrollbar

import (
	"git.sr.ht/~rockorager/vaxis"
	"git.sr.ht/~rockorager/vaxis/zzverif"
)

// VerifC19Scrollbar: all integers free (8-bit signed ranges): no panic, bounded loop, and
// only cells of the window's first column change.
func VerifC19Scrollbar() {
	m := &Model{
		TotalHeight: int(int8(zzverif.Byte("total"))),
		ViewHeight:  int(int8(zzverif.Byte("view"))),
		Top:         int(int8(zzverif.Byte("top"))),
	}
	h := int(zzverif.Byte("h"))
	zzverif.Assume(h >= 0 && h <= 4)
	vx := vaxis.VerifBare(3, 4)
	win := vx.Window().New(1, 0, 2, h)
	zzverif.Terminates(200)
	m.Draw(win)
	ok := true
	for y := 0; y < 4; y++ {
		for x := 0; x < 3; x++ {
			changed := vaxis.VerifNextCell(vx, x, y).Grapheme != ""
			ok = ok && (!changed || (x == 1 && y < h))
		}
	}
	zzverif.Assert(ok, "scrollbar-draws-only-in-its-column")
	zzverif.Reach("end")
}
