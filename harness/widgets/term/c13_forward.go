package term

import (
	"fmt"
	"strings"

	"git.sr.ht/~rockorager/vaxis"
	"git.sr.ht/~rockorager/vaxis/ansi"
	"git.sr.ht/~rockorager/vaxis/zzverif"
)

// verifParseAll runs the real input parser over s and returns the delivered sequences.
func verifParseAll(s string) []ansi.Sequence {
	p := ansi.NewParser(strings.NewReader(s))
	var out []ansi.Sequence
	for seq := range p.Next() {
		if _, ok := seq.(ansi.EOF); ok {
			break
		}
		out = append(out, seq)
	}
	return out
}

var verifSpecials = []rune{vaxis.KeyUp, vaxis.KeyDown, vaxis.KeyRight, vaxis.KeyLeft, vaxis.KeyHome, vaxis.KeyEnd,
	vaxis.KeyInsert, vaxis.KeyDelete, vaxis.KeyPgUp, vaxis.KeyPgDown,
	vaxis.KeyF01, vaxis.KeyF02, vaxis.KeyF03, vaxis.KeyF04, vaxis.KeyF05, vaxis.KeyF06, vaxis.KeyF07, vaxis.KeyF08,
	vaxis.KeyF09, vaxis.KeyF10, vaxis.KeyF11, vaxis.KeyF12}

// VerifC13Keys: a key handed to the embedded terminal is written in an encoding which, parsed
// by Vaxis's own input pipeline (real parser, decodeKey), yields an event matching the
// original key and modifiers - for the chord classes the xterm legacy encoding can express.
func VerifC13Keys() {
	var key vaxis.Key
	switch zzverif.Choose("class", 7) {
	case 0: // plain printable
		c := rune(0x20 + zzverif.Choose("char", 0x7F-0x20))
		key = vaxis.Key{Keycode: c, Text: string(c)}
		if c >= 'A' && c <= 'Z' { // an upper-case letter arrives as Shift+lower with text
			key = vaxis.Key{Keycode: c + 0x20, ShiftedCode: c, Modifiers: vaxis.ModShift, Text: string(c)}
		}
	case 1: // Shift+letter
		l := rune('a' + zzverif.Choose("letter", 26))
		key = vaxis.Key{Keycode: l, ShiftedCode: l - 0x20, Modifiers: vaxis.ModShift, Text: string(l - 0x20)}
	case 2: // Alt + unshifted printable
		c := rune(0x20 + zzverif.Choose("char", 0x7F-0x20))
		// ESC + 0x20-0x2F is an escape-sequence prefix and ESC [ ] _ ^ \\ introduce control
		// strings: the legacy encoding cannot express Alt with those keys unambiguously
		zzverif.Assume(!(c >= 'A' && c <= 'Z') && c > 0x2F && c != '[' && c != ']' && c != '_' && c != '^' && c != '\\')
		key = vaxis.Key{Keycode: c, Modifiers: vaxis.ModAlt}
	case 3: // Ctrl+letter that is not a C0 alias of another key (h i j m)
		l := rune('a' + zzverif.Choose("letter", 26))
		zzverif.Assume(l != 'h' && l != 'i' && l != 'j' && l != 'm')
		key = vaxis.Key{Keycode: l, Modifiers: vaxis.ModCtrl}
	case 6: // Ctrl + the punctuation keys that have C0 codes of their own (0x1C-0x1F)
		c := []rune{'\\', ']', '^', '_'}[zzverif.Choose("punct", 4)]
		key = vaxis.Key{Keycode: c, Modifiers: vaxis.ModCtrl}
	case 4: // special key with any of Shift/Alt/Ctrl
		k := verifSpecials[zzverif.Choose("special", len(verifSpecials))]
		mods := vaxis.ModifierMask(zzverif.Uint8("mods")) & (vaxis.ModShift | vaxis.ModAlt | vaxis.ModCtrl)
		key = vaxis.Key{Keycode: k, Modifiers: mods}
	case 5: // Enter, Tab, Backspace, Escape
		k := []rune{vaxis.KeyEnter, vaxis.KeyTab, vaxis.KeyBackspace, vaxis.KeyEsc}[zzverif.Choose("named", 4)]
		key = vaxis.Key{Keycode: k}
	}
	// Caps Lock / Num Lock may be on: they are not part of the chord and do not change how
	// the key is written
	locks := vaxis.ModifierMask(0)
	if key.Text == "" {
		locks = vaxis.ModifierMask(zzverif.Uint8("locks")) & (vaxis.ModCapsLock | vaxis.ModNumLock)
	}
	chord := key.Modifiers
	key.Modifiers |= locks
	// the host delivers a key as a press, as an auto-repeat or as part of a bracketed paste:
	// the child gets the same bytes
	key.EventType = []vaxis.EventType{vaxis.EventPress, vaxis.EventRepeat, vaxis.EventPaste}[zzverif.Choose("eventType", 3)]
	deckpam, decckm := zzverif.Bool("deckpam"), zzverif.Bool("decckm")
	// through the widget's real entry point: Update consults the child's modes and writes
	// the encoding to the pty
	vt := verifModel(4, 3)
	vt.mode.deckpam, vt.mode.decckm = deckpam, decckm
	vt.Update(key)
	enc := string(zzverif.FileLog(vt.pty))
	zzverif.Assert(enc != "", "key-is-encoded")
	seqs := verifParseAll(enc)
	if key.Keycode == vaxis.KeyEsc {
		// a lone ESC is disambiguated by the timer (C08); nothing else to compare here
		zzverif.Reach("end")
		return
	}
	zzverif.Assert(len(seqs) == 1, "one-sequence-for-one-key")
	if len(seqs) == 1 {
		got := vaxis.VerifDecodeKey(seqs[0])
		zzverif.Assert(got.Matches(key.Keycode, chord), "decoded-key-matches-original-chord")
		switch key.Keycode {
		case vaxis.KeyUp, vaxis.KeyDown, vaxis.KeyRight, vaxis.KeyLeft, vaxis.KeyHome, vaxis.KeyEnd:
			// the child's cursor-key mode (DECCKM) selects SS3 vs CSI for the unmodified
			// cursor keys: the four arrows, Home and End (xterm ctlseqs, "PC-Style Function Keys")
			_, isSS3 := seqs[0].(ansi.SS3)
			if chord == 0 {
				zzverif.Assert(isSS3 == decckm, "decckm-selects-ss3")
			}
		}
	}
	zzverif.Reach("end")
}

var verifButtons = []vaxis.MouseButton{vaxis.MouseLeftButton, vaxis.MouseMiddleButton, vaxis.MouseRightButton, vaxis.MouseNoButton,
	vaxis.MouseWheelUp, vaxis.MouseWheelDown, vaxis.MouseButton8, vaxis.MouseButton9, vaxis.MouseButton10, vaxis.MouseButton11}

// VerifC13Mouse: under SGR mouse mode the report written for a mouse event parses back to the
// same button, position and type; nothing is written when the child enabled no mouse mode
// (alternate-scroll translation aside) and no paste brackets without mode 2004.
func VerifC13Mouse() {
	vt := verifModel(4, 3)
	vt.mode.mouseButtons = zzverif.Bool("m1000")
	vt.mode.mouseDrag = zzverif.Bool("m1002")
	vt.mode.mouseMotion = zzverif.Bool("m1003")
	vt.mode.mouseSGR = zzverif.Bool("m1006")
	vt.mode.altScroll = zzverif.Bool("m1007")
	vt.mode.smcup = zzverif.Bool("smcup")
	vt.mode.paste = zzverif.Bool("m2004")
	msg := vaxis.Mouse{
		Button:    verifButtons[zzverif.Choose("button", len(verifButtons))],
		Col:       int(zzverif.Uint16("col")),
		Row:       int(zzverif.Uint16("row")),
		EventType: []vaxis.EventType{vaxis.EventPress, vaxis.EventRelease, vaxis.EventMotion}[zzverif.Choose("type", 3)],
	}
	zzverif.Assume(msg.Col < zzverif.Param("maxpos") && msg.Row < zzverif.Param("maxpos"))
	// the tracking modes enable reports; 1006 only selects their encoding
	tracking := vt.mode.mouseButtons || vt.mode.mouseDrag || vt.mode.mouseMotion
	motion := msg.EventType == vaxis.EventMotion
	expect := tracking && !motion ||
		motion && msg.Button != vaxis.MouseNoButton && (vt.mode.mouseDrag || vt.mode.mouseMotion) ||
		motion && msg.Button == vaxis.MouseNoButton && vt.mode.mouseMotion
	vt.Update(msg)
	out := string(zzverif.FileLog(vt.pty))
	wheel := msg.Button == vaxis.MouseWheelUp || msg.Button == vaxis.MouseWheelDown
	altScrollKeys := !tracking && vt.mode.altScroll && vt.mode.smcup && wheel
	if !expect && !altScrollKeys {
		zzverif.Assert(out == "", "nothing-written-for-events-the-child-has-not-enabled")
	}
	if expect {
		zzverif.Assert(out != "", "enabled-event-is-reported")
	}
	if expect && vt.mode.mouseSGR && out != "" {
		zzverif.Reach("sgr-report")
		seqs := verifParseAll(out)
		zzverif.Assert(len(seqs) == 1, "one-report")
		if len(seqs) == 1 {
			csi, ok := seqs[0].(ansi.CSI)
			zzverif.Assert(ok, "report-is-csi")
			if ok {
				got, ok2 := vaxis.VerifParseMouse(csi)
				zzverif.Assert(ok2, "report-parses-as-sgr-mouse")
				zzverif.Assert(got.Button == msg.Button && got.Col == msg.Col && got.Row == msg.Row && got.EventType == msg.EventType, "mouse-round-trips")
			}
		}
	}
	// paste brackets
	vt2 := verifModel(4, 3)
	vt2.mode.paste = vt.mode.paste
	vt2.Update(vaxis.PasteStartEvent{})
	vt2.Update(vaxis.PasteEndEvent{})
	pb := string(zzverif.FileLog(vt2.pty))
	if vt2.mode.paste {
		zzverif.Assert(pb == "\x1b[200~\x1b[201~", "paste-brackets-forwarded")
	} else {
		zzverif.Assert(pb == "", "no-paste-brackets-without-2004")
	}
	zzverif.Reach("end")
}

// VerifC13Modes: the modes the child asks for are the modes the forwarding code consults:
// from any combination of the input-related modes, DECSET / DECRST of one of them (cursor
// keys 1, mouse 1000 / 1002 / 1003 / 1006, alternate scroll 1007, bracketed paste 2004) or
// ESC = / ESC > (keypad) changes exactly that mode, to exactly the requested value, and the
// child's DECRQM for it reports it.
func VerifC13Modes() {
	vt := verifModel(4, 3)
	get := func() [8]bool {
		return [8]bool{vt.mode.decckm, vt.mode.mouseButtons, vt.mode.mouseDrag, vt.mode.mouseMotion, vt.mode.mouseSGR,
			vt.mode.altScroll, vt.mode.paste, vt.mode.deckpam}
	}
	vt.mode.decckm, vt.mode.mouseButtons, vt.mode.mouseDrag, vt.mode.mouseMotion = zzverif.Bool("m1"), zzverif.Bool("m1000"), zzverif.Bool("m1002"), zzverif.Bool("m1003")
	vt.mode.mouseSGR, vt.mode.altScroll, vt.mode.paste, vt.mode.deckpam = zzverif.Bool("m1006"), zzverif.Bool("m1007"), zzverif.Bool("m2004"), zzverif.Bool("keypad")
	before := get()
	which := zzverif.Choose("mode", 8)
	set := zzverif.Bool("set")
	numbers := []int{1, 1000, 1002, 1003, 1006, 1007, 2004}
	if which == 7 {
		if set {
			vt.esc("=")
		} else {
			vt.esc(">")
		}
	} else if set {
		vt.csi("?h", [][]int{{numbers[which]}})
	} else {
		vt.csi("?l", [][]int{{numbers[which]}})
	}
	want := before
	want[which] = set
	// a second mode in the same DECSET / DECRST sequence (CSI ? a ; b h)
	if which < 7 && zzverif.Bool("twoModes") {
		other := zzverif.Choose("otherMode", 7)
		if set {
			vt.csi("?h", [][]int{{numbers[which]}, {numbers[other]}})
		} else {
			vt.csi("?l", [][]int{{numbers[which]}, {numbers[other]}})
		}
		want[other] = set
	}
	zzverif.Assert(get() == want, "mode-request-changes-exactly-that-mode")
	if which < 7 {
		vt.csi("?$p", [][]int{{numbers[which]}})
		st := 2
		if set {
			st = 1
		}
		zzverif.Assert(string(zzverif.FileLog(vt.pty)) == fmt.Sprintf("\x1b[?%d;%d$y", numbers[which], st), "mode-report-tells-the-mode")
	}
	zzverif.Reach("end")
}
