package term

import (
	"git.sr.ht/~rockorager/vaxis/ansi"
	"git.sr.ht/~rockorager/vaxis/zzverif"
)

// verifModel builds an emulator without PTY or child process.
func verifModel(w, h int) *Model {
	vt := New()
	vt.pty = zzverif.NewFile()
	vt.resize(w, h)
	return vt
}

// verifInvariant is invariant I of DESIGN.md Appendix C as a boolean (no side effects).
func verifCursorOK(vt *Model, c cursor, lastCol, decawm bool, w, h int) bool {
	rowOK := c.row >= 0 && int(c.row) < h
	colOK := c.col >= 0 && int(c.col) < w
	return rowOK && colOK
}

func verifMarginOK(vt *Model, w, h int) bool {
	m := vt.margin
	return m.left == 0 && int(m.right) == w-1 && m.top >= 0 && m.top <= m.bottom && int(m.bottom) <= h-1 && (m.top < m.bottom || h == 1)
}

func verifGridOK(vt *Model, w, h int) bool {
	if len(vt.primaryScreen) != h || len(vt.altScreen) != h || len(vt.activeScreen) != h {
		return false
	}
	for i := 0; i < h; i++ {
		if len(vt.primaryScreen[i]) != w || len(vt.altScreen[i]) != w || len(vt.activeScreen[i]) != w {
			return false
		}
	}
	return true
}

// verifSymState overwrites the emulator state with an arbitrary state satisfying I.
func verifSymState(vt *Model, w, h int) {
	vt.cursor.row = row(zzverif.Int("cur.row"))
	vt.cursor.col = column(zzverif.Int("cur.col"))
	vt.lastCol = zzverif.Bool("lastCol")
	vt.mode.decawm = zzverif.Bool("decawm")
	vt.mode.irm = zzverif.Bool("irm")
	vt.mode.lnm = zzverif.Bool("lnm")
	vt.margin.top = row(zzverif.Int("m.top"))
	vt.margin.bottom = row(zzverif.Int("m.bottom"))
	// lastCol is only ever set together with decawm and col == right+1
	zzverif.Assume(!vt.lastCol || (vt.mode.decawm && int(vt.cursor.col) == w-1))
	zzverif.Assume(verifCursorOK(vt, vt.cursor, vt.lastCol, vt.mode.decawm, w, h))
	zzverif.Assume(verifMarginOK(vt, w, h))
	if zzverif.Bool("smcup") {
		vt.mode.smcup = true
		vt.activeScreen = vt.altScreen
	}
	// saved cursors (DECSC) are cursors that were valid when saved
	vt.primaryState.cursor.row = row(zzverif.Int("ps.row"))
	vt.primaryState.cursor.col = column(zzverif.Int("ps.col"))
	vt.altState.cursor.row = row(zzverif.Int("as.row"))
	vt.altState.cursor.col = column(zzverif.Int("as.col"))
	vt.primaryState.decawm = zzverif.Bool("ps.decawm")
	vt.altState.decawm = zzverif.Bool("as.decawm")
	zzverif.Assume(verifCursorOK(vt, vt.primaryState.cursor, true, true, w, h))
	zzverif.Assume(verifCursorOK(vt, vt.altState.cursor, true, true, w, h))
}

func verifParams(n int, p1, p2 int) [][]int {
	switch n {
	case 0:
		return [][]int{}
	case 1:
		return [][]int{{p1}}
	}
	return [][]int{{p1}, {p2}}
}

var verifCSIOps = []string{"@", "A", "B", "C", "D", "E", "F", "G", "I", "J", "K", "L", "M", "P", "S", "T", "X", "Z", "`", "a", "b", "d", "e", "g", "n", "?$p", "s", "u", " q", "c", ">c", "h", "l", "?h", "?l"}
var verifCSI2Ops = []string{"H", "f", "r"}
var verifESCOps = []string{"7", "8", "D", "E", "H", "M", "N", "O", "=", ">", "c", "(0", "(B"}
var verifC0Ops = []rune{0x08, 0x09, 0x0A, 0x0B, 0x0C, 0x0D, 0x0E, 0x0F}

type verifGlyph struct {
	g string
	w int
}

var verifGlyphs = []verifGlyph{{"a", 1}, {"世", 2}, {"́", 0}}

func verifCheck(vt *Model, w, h int) {
	zzverif.Assert(verifGridOK(vt, w, h), "grid-dimensions")
	zzverif.Assert(vt.cursor.row >= 0 && int(vt.cursor.row) < h, "cursor-row-in-screen")
	zzverif.Assert(vt.cursor.col >= 0 && int(vt.cursor.col) < w, "cursor-col-in-screen")
	zzverif.Assert(verifMarginOK(vt, w, h), "margins-ordered-in-screen")
	// part of the representation invariant: the charset designation table exists (a later
	// designation, ESC ( 0 and friends, stores into it)
	zzverif.Assert(vt.charsets.designations != nil, "charset-designation-table-present")
}

// VerifC05Step: one control function from an arbitrary state satisfying I, with free
// parameters: no panic, bounded loops, I afterwards.
func VerifC05Step() {
	w, h := zzverif.Param("w"), zzverif.Param("h")
	vt := verifModel(w, h)
	verifSymState(vt, w, h)
	p1, p2 := zzverif.Int("p1"), zzverif.Int("p2")
	kind := zzverif.Choose("kind", 5)
	zzverif.Terminates(zzverif.Param("budget"))
	switch kind {
	case 0:
		op := zzverif.Choose("csi", len(verifCSIOps))
		np := zzverif.Choose("np", 2)
		zzverif.Known("C05-cnl-cpl-unbounded-loop", (verifCSIOps[op] == "E" || verifCSIOps[op] == "F") && np == 1 && (p1 > 64 || p1 < 0))
		vt.csi(verifCSIOps[op], verifParams(np, p1, p2))
	case 1:
		op := zzverif.Choose("csi2", len(verifCSI2Ops))
		np := zzverif.Choose("np", 3)
		vt.csi(verifCSI2Ops[op], verifParams(np, p1, p2))
	case 2:
		op := zzverif.Choose("esc", len(verifESCOps))
		vt.esc(verifESCOps[op])
	case 3:
		op := zzverif.Choose("c0", len(verifC0Ops))
		vt.c0(verifC0Ops[op])
	case 4:
		g := verifGlyphs[zzverif.Choose("glyph", len(verifGlyphs))]
		vt.print(ansi.Print{Grapheme: g.g, Width: g.w})
	}
	verifCheck(vt, w, h)
	zzverif.Reach("end")
}

// VerifC05Resize: resize from an arbitrary valid state to any size in [1,maxn]^2, then one
// print: no panic, I for the new size.
func VerifC05Resize() {
	w, h := zzverif.Param("w"), zzverif.Param("h")
	vt := verifModel(w, h)
	verifSymState(vt, w, h)
	// sizes from 1x1 upward (the property's quantifier); 0 is outside the claim
	nw, nh := 1+zzverif.Choose("nw", zzverif.Param("maxn")), 1+zzverif.Choose("nh", zzverif.Param("maxn"))
	zzverif.Terminates(zzverif.Param("budget"))
	vt.resize(nw, nh)
	if nw >= 1 && nh >= 1 {
		verifCheck(vt, nw, nh)
	}
	g := verifGlyphs[zzverif.Choose("glyph", len(verifGlyphs))]
	vt.print(ansi.Print{Grapheme: g.g, Width: g.w})
	if zzverif.Bool("restore") {
		vt.decrc()
		vt.print(ansi.Print{Grapheme: g.g, Width: g.w})
	}
	if nw >= 1 && nh >= 1 {
		verifCheck(vt, nw, nh)
	}
	zzverif.Reach("end")
}
