package term

import (
	"git.sr.ht/~rockorager/vaxis"
	"git.sr.ht/~rockorager/vaxis/ansi"
	"git.sr.ht/~rockorager/vaxis/zzverif"
)

// Reference VT (oracle for C06), from the VT510 programmer reference and xterm ctlseqs.
// Independent of widgets/term. n is the parameter with omitted/0 meaning 1.

type rvCell struct {
	g  string // "" = blank
	bg vaxis.Color
	at vaxis.AttributeMask
}

type refVT struct {
	w, h         int
	grid         [][]rvCell
	row, col     int
	pending      bool
	top, bot     int
	penBg        vaxis.Color
	penAt        vaxis.AttributeMask
	savedRow     int
	savedCol     int
	saved        bool
	vprAlt       int  // xterm routes VPR through CUD: the alternative row that is also accepted
	cursorColAny bool // IL/DL: cursor column unconstrained
}

func (v *refVT) blank() rvCell { return rvCell{bg: v.penBg} }

func rvMin(a, b int) int {
	if a < b {
		return a
	}
	return b
}

func rvMax(a, b int) int {
	if a > b {
		return a
	}
	return b
}

func (v *refVT) scrollUp(n int) {
	n = rvMin(n, v.bot-v.top+1)
	for r := v.top; r <= v.bot; r++ {
		if r+n <= v.bot {
			copy(v.grid[r], v.grid[r+n])
		} else {
			for c := range v.grid[r] {
				v.grid[r][c] = v.blank()
			}
		}
	}
}

func (v *refVT) scrollDown(n int) {
	n = rvMin(n, v.bot-v.top+1)
	for r := v.bot; r >= v.top; r-- {
		if r-n >= v.top {
			copy(v.grid[r], v.grid[r-n])
		} else {
			for c := range v.grid[r] {
				v.grid[r][c] = v.blank()
			}
		}
	}
}

func (v *refVT) index() {
	if v.row == v.bot {
		v.scrollUp(1)
	} else if v.row < v.h-1 {
		v.row++
	}
}

func (v *refVT) print(g string, width int) {
	if v.pending || v.col+width > v.w {
		v.col = 0
		v.index()
		v.pending = false
	}
	v.grid[v.row][v.col] = rvCell{g: g, bg: v.penBg, at: v.penAt}
	if width == 2 && v.col+1 < v.w {
		v.grid[v.row][v.col+1] = rvCell{g: "\x00cont", bg: v.penBg, at: v.penAt}
	}
	v.col += width
	if v.col >= v.w {
		v.col = v.w - 1
		v.pending = true
	}
}

// csi applies one control function; n already has the default applied.
func (v *refVT) csi(op string, n int, p1, p2 int, np int) {
	w, h := v.w, v.h
	const big = 1 << 20 // any count beyond the screen behaves like this one (no overflow here)
	if n > big {
		n = big
	}
	if p1 > big {
		p1 = big
	}
	if p2 > big {
		p2 = big
	}
	if op != "print" {
		v.pending = false
	}
	switch op {
	case "A":
		if v.row >= v.top {
			v.row = rvMax(v.top, v.row-n)
		} else {
			v.row = rvMax(0, v.row-n)
		}
	case "B", "E":
		if v.row <= v.bot {
			v.row = rvMin(v.bot, v.row+n)
		} else {
			v.row = rvMin(h-1, v.row+n)
		}
		if op == "E" {
			v.col = 0
		}
	case "F":
		if v.row >= v.top {
			v.row = rvMax(v.top, v.row-n)
		} else {
			v.row = rvMax(0, v.row-n)
		}
		v.col = 0
	case "C", "a":
		v.col = rvMin(w-1, v.col+n)
	case "D":
		v.col = rvMax(0, v.col-n)
	case "G", "`":
		v.col = rvMin(w-1, n-1)
	case "d":
		v.row = rvMin(h-1, n-1)
	case "e":
		v.vprAlt = v.row
		if v.row <= v.bot {
			v.vprAlt = rvMin(v.bot, v.row+n)
		} else {
			v.vprAlt = rvMin(h-1, v.row+n)
		}
		v.row = rvMin(h-1, v.row+n)
	case "H", "f":
		r, c := 1, 1
		if np >= 1 && p1 > 0 {
			r = p1
		}
		if np >= 2 && p2 > 0 {
			c = p2
		}
		v.row, v.col = rvMin(h-1, r-1), rvMin(w-1, c-1)
	case "J":
		switch {
		case np == 0 || p1 == 0:
			for c := v.col; c < w; c++ {
				v.grid[v.row][c] = v.blank()
			}
			for r := v.row + 1; r < h; r++ {
				for c := 0; c < w; c++ {
					v.grid[r][c] = v.blank()
				}
			}
		case p1 == 1:
			for r := 0; r < v.row; r++ {
				for c := 0; c < w; c++ {
					v.grid[r][c] = v.blank()
				}
			}
			for c := 0; c <= v.col; c++ {
				v.grid[v.row][c] = v.blank()
			}
		case p1 == 2:
			for r := 0; r < h; r++ {
				for c := 0; c < w; c++ {
					v.grid[r][c] = v.blank()
				}
			}
		}
	case "K":
		switch {
		case np == 0 || p1 == 0:
			for c := v.col; c < w; c++ {
				v.grid[v.row][c] = v.blank()
			}
		case p1 == 1:
			for c := 0; c <= v.col; c++ {
				v.grid[v.row][c] = v.blank()
			}
		case p1 == 2:
			for c := 0; c < w; c++ {
				v.grid[v.row][c] = v.blank()
			}
		}
	case "X":
		m := rvMin(n, w-v.col)
		for c := v.col; c < v.col+m; c++ {
			v.grid[v.row][c] = v.blank()
		}
	case "P":
		m := rvMin(n, w-v.col)
		line := v.grid[v.row]
		for c := v.col; c < w; c++ {
			if c+m < w {
				line[c] = line[c+m]
			} else {
				line[c] = v.blank()
			}
		}
	case "@":
		m := rvMin(n, w-v.col)
		line := v.grid[v.row]
		for c := w - 1; c >= v.col; c-- {
			if c-m >= v.col {
				line[c] = line[c-m]
			} else {
				line[c] = v.blank()
			}
		}
	case "L", "M":
		if v.row < v.top || v.row > v.bot {
			return
		}
		m := rvMin(n, v.bot-v.row+1)
		if op == "L" {
			for r := v.bot; r >= v.row; r-- {
				if r-m >= v.row {
					copy(v.grid[r], v.grid[r-m])
				} else {
					for c := range v.grid[r] {
						v.grid[r][c] = v.blank()
					}
				}
			}
		} else {
			for r := v.row; r <= v.bot; r++ {
				if r+m <= v.bot {
					copy(v.grid[r], v.grid[r+m])
				} else {
					for c := range v.grid[r] {
						v.grid[r][c] = v.blank()
					}
				}
			}
		}
		v.cursorColAny = true
	case "S":
		v.scrollUp(n)
	case "T":
		v.scrollDown(n)
	case "r":
		t, b := 1, h
		if np >= 1 && p1 > 0 {
			t = p1
		}
		if np >= 2 && p2 > 0 {
			b = p2
		}
		if b > h {
			b = h
		}
		if t < b {
			v.top, v.bot = t-1, b-1
			v.row, v.col = 0, 0
		}
	}
}

var verifC06Ops = []string{"A", "B", "C", "D", "E", "F", "G", "`", "a", "d", "e", "J", "K", "X", "P", "@", "L", "M", "S", "T"}
var verifC06Ops2 = []string{"H", "f", "r"}

func verifTag(r, c, w int) string { return string(rune('A' + r*w + c)) }

func verifNorm(g string) string {
	if g == " " {
		return ""
	}
	return g
}

// VerifC06Step: one operation of the core vocabulary on a tagged grid, from every cursor
// position, scroll region and pen background of a small screen, with a free parameter: the
// emulator's grid, cursor and pending-wrap flag equal the reference VT's.
func VerifC06Step() {
	w, h := zzverif.Param("w"), zzverif.Param("h")
	vt := verifModel(w, h)
	ref := &refVT{w: w, h: h}
	ref.grid = make([][]rvCell, h)
	for r := 0; r < h; r++ {
		ref.grid[r] = make([]rvCell, w)
		for c := 0; c < w; c++ {
			g := verifTag(r, c, w)
			ref.grid[r][c] = rvCell{g: g}
			vt.activeScreen[r][c].Grapheme = g
			vt.activeScreen[r][c].Width = 1
		}
	}
	// optionally the first two cells of the top row hold a wide glyph
	wide := w >= 2 && zzverif.Bool("wideAt00")
	if wide {
		ref.grid[0][0] = rvCell{g: "世"}
		ref.grid[0][1] = rvCell{g: "\x00cont"}
		vt.activeScreen[0][0].Grapheme, vt.activeScreen[0][0].Width = "世", 2
		vt.activeScreen[0][1].Grapheme, vt.activeScreen[0][1].Width = "", 0
	}
	ref.row, ref.col = zzverif.Choose("row", h), zzverif.Choose("col", w)
	ref.top = zzverif.Choose("top", h)
	ref.bot = ref.top + 1 + zzverif.Choose("botoff", h)
	zzverif.Assume(ref.bot <= h-1)
	if zzverif.Bool("penbg") {
		ref.penBg = vaxis.IndexColor(1)
	}
	vt.cursor.row, vt.cursor.col = row(ref.row), column(ref.col)
	vt.margin.top, vt.margin.bottom = row(ref.top), row(ref.bot)
	vt.cursor.Style.Background = ref.penBg
	ref.pending = ref.col == w-1 && zzverif.Bool("pending")
	vt.lastCol = ref.pending
	p1, p2 := zzverif.Int("p1"), zzverif.Int("p2")
	zzverif.Assume(p1 >= 0 && p2 >= 0)
	kind := zzverif.Choose("kind", 7)
	opname := ""
	zzverif.Terminates(3000)
	switch kind {
	case 0:
		op := verifC06Ops[zzverif.Choose("op", len(verifC06Ops))]
		opname = op
		// behaviour in the deferred-wrap state other than print, CR and absolute positioning
		// (CUP / HVP below, and the single-axis forms CHA, HPA, VPA) is terminal-specific
		zzverif.Assume(!ref.pending || op == "G" || op == "`" || op == "d")
		np := zzverif.Choose("np", 2)
		n := 1
		if np == 1 && p1 > 0 {
			n = p1
		}
		vt.csi(op, verifParams(np, p1, p2))
		ref.csi(op, n, p1, p2, np)
	case 1:
		op := verifC06Ops2[zzverif.Choose("op2", len(verifC06Ops2))]
		opname = op
		// DECSTBM in the deferred-wrap state is terminal-specific (CUP/HVP are compared)
		zzverif.Assume(!(op == "r" && ref.pending))
		np := zzverif.Choose("np", 3)
		vt.csi(op, verifParams(np, p1, p2))
		ref.csi(op, 1, p1, p2, np)
	case 2: // CR / LF / IND / NEL / RI
		c := zzverif.Choose("ctl", 5)
		if c != 0 {
			zzverif.Assume(!ref.pending)
		}
		ref.pending = false
		switch c {
		case 0:
			vt.c0(0x0D)
			ref.col = 0
		case 1:
			vt.c0(0x0A)
			ref.index()
		case 2:
			vt.esc("D")
			ref.index()
		case 3:
			vt.esc("E")
			ref.index()
			ref.col = 0
		case 4:
			vt.esc("M")
			if ref.row == ref.top {
				ref.scrollDown(1)
			} else if ref.row > 0 {
				ref.row--
			}
		}
	case 3: // print
		opname = "print"
		vt.mode.decawm = true
		if zzverif.Bool("wide") {
			zzverif.Assume(w >= 2)
			vt.print(ansi.Print{Grapheme: "世", Width: 2})
			ref.print("世", 2)
		} else {
			vt.print(ansi.Print{Grapheme: "z", Width: 1})
			ref.print("z", 1)
		}
	case 5: // enter the alternate screen, draw there, leave: the primary screen and cursor return
		zzverif.Assume(!ref.pending)
		vt.csi("?h", [][]int{{1049}})
		altBlank := true
		for r := 0; r < h; r++ {
			for c := 0; c < w; c++ {
				altBlank = altBlank && verifNorm(vt.activeScreen[r][c].Grapheme) == ""
			}
		}
		zzverif.Assert(altBlank, "alternate-screen-starts-blank")
		vt.csi("H", [][]int{{1}, {1}})
		vt.csi("m", [][]int{{1}, {45}})
		vt.print(ansi.Print{Grapheme: "q", Width: 1})
		vt.csi("?l", [][]int{{1049}})
		zzverif.Assert(vt.cursor.Style.Background == ref.penBg && vt.cursor.Style.Attribute == 0, "leaving-the-alternate-screen-restores-the-pen")
		if zzverif.Bool("revisit") {
			// a second visit: what the first one drew must not reappear
			vt.csi("?h", [][]int{{1049}})
			againBlank := true
			for r := 0; r < h; r++ {
				for c := 0; c < w; c++ {
					againBlank = againBlank && verifNorm(vt.activeScreen[r][c].Grapheme) == ""
				}
			}
			zzverif.Assert(againBlank, "alternate-screen-blank-on-every-visit")
			vt.csi("?l", [][]int{{1049}})
			zzverif.Assert(vt.cursor.Style.Background == ref.penBg && vt.cursor.Style.Attribute == 0, "leaving-the-alternate-screen-restores-the-pen")
		}
	case 6: // DECSC, move, then ?1049l while on the primary screen: xterm restores the cursor
		zzverif.Assume(!ref.pending)
		vt.esc("7")
		sr, sc := ref.row, ref.col
		vt.csi("H", [][]int{{1}, {1}})
		vt.csi("m", [][]int{{1}, {45}})
		vt.csi("?l", [][]int{{1049}})
		ref.row, ref.col = sr, sc
		zzverif.Assert(vt.cursor.Style.Background == ref.penBg && vt.cursor.Style.Attribute == 0, "leaving-the-alternate-screen-restores-the-pen")
	case 4: // DECSC, move, DECRC
		zzverif.Assume(!ref.pending)
		vt.esc("7")
		sr, sc := ref.row, ref.col
		vt.csi("H", [][]int{{1}, {1}})
		// the saved cursor includes the SGR pen: change it (reset, or bold on another
		// background) before restoring
		if zzverif.Bool("resetpen") {
			vt.csi("m", [][]int{{0}})
		} else {
			vt.csi("m", [][]int{{1}, {45}})
		}
		if zzverif.Bool("ansiRestore") {
			vt.csi("u", nil)
		} else {
			vt.esc("8")
		}
		ref.row, ref.col = sr, sc
		zzverif.Assert(vt.cursor.Style.Background == ref.penBg && vt.cursor.Style.Attribute == 0, "restore-cursor-restores-the-pen")
	}
	gridOK, styleOK, widthOK := true, true, true
	for r := 0; r < h; r++ {
		for c := 0; c < w; c++ {
			ec := vt.activeScreen[r][c]
			rc := ref.grid[r][c]
			if rc.g == "\x00cont" {
				continue
			}
			gridOK = gridOK && verifNorm(ec.Grapheme) == rc.g
			styleOK = styleOK && ec.Background == rc.bg && ec.Attribute == rc.at
			// widths: a wide glyph is 2 cells wide, a blank or narrow cell is not
			if rc.g == "世" {
				widthOK = widthOK && ec.Width == 2
			} else {
				widthOK = widthOK && ec.Width != 2
			}
		}
	}
	zzverif.Assert(gridOK, "grid-graphemes-equal-reference")
	zzverif.Assert(styleOK, "erased-cells-take-current-background")
	zzverif.Assert(widthOK, "cell-widths-equal-reference")
	if opname == "e" {
		zzverif.Assert(int(vt.cursor.row) == ref.row || int(vt.cursor.row) == ref.vprAlt, "cursor-row-equals-reference")
	} else {
		zzverif.Assert(int(vt.cursor.row) == ref.row, "cursor-row-equals-reference")
	}
	if !ref.cursorColAny {
		zzverif.Assert(int(vt.cursor.col) == ref.col, "cursor-col-equals-reference")
	}
	zzverif.Assert(vt.lastCol == ref.pending, "pending-wrap-equals-reference")
	if opname == "r" {
		zzverif.Assert(int(vt.margin.top) == ref.top && int(vt.margin.bottom) == ref.bot, "scroll-region-equals-reference")
	}
	zzverif.Reach("end")
}
