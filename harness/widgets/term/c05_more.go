package term

import (
	"strings"

	"git.sr.ht/~rockorager/vaxis"
	"git.sr.ht/~rockorager/vaxis/ansi"
	"git.sr.ht/~rockorager/vaxis/zzverif"
)

// VerifC05Events: a sequential model of the PTY goroutine's select loop. In each iteration
// either the "event ready" case or the "sequence ready" case is taken (free boolean when
// both are ready); k event-raising sequences arrive. The goroutine that raises the events is
// the only one that drains them, so a postEvent that blocks can never complete.
func VerifC05Events() {
	vt := verifModel(3, 2)
	vt.parser = ansi.NewParser(strings.NewReader(""))
	handled := 0
	vt.eventHandler = func(ev vaxis.Event) { handled++ }
	k := zzverif.Param("k")
	undrained := 0
	for i := 0; i < k; i++ {
		for len(vt.events) > 0 && zzverif.Bool("drain") {
			ev := <-vt.events
			vt.eventHandler(ev)
			undrained--
		}
		zzverif.Known("C05-events-self-deadlock", undrained >= 2)
		var seq ansi.Sequence
		switch zzverif.Choose("ev", 3) {
		case 0:
			seq = ansi.C0(0x07)
		case 1:
			seq = ansi.OSC{Payload: []rune("2;t")}
		case 2:
			seq = ansi.OSC{Payload: []rune("9;n")}
		}
		vt.update(seq)
		undrained++
	}
	zzverif.Reach("end")
}

// VerifC05Draw: drawing the emulator into a host window of free geometry changes only cells
// inside that window (and the screen).
func VerifC05Draw() {
	const W, H = 3, 3
	vx := vaxis.VerifBare(W, H)
	vt := verifModel(2, 2)
	// content: every emulator cell non-empty, so that drawn cells are observable
	for r := range vt.activeScreen {
		for c := range vt.activeScreen[r] {
			vt.activeScreen[r][c].Grapheme = "x"
			vt.activeScreen[r][c].Width = 1
			vt.activeScreen[r][c].Attribute = vaxis.AttrBold
		}
	}
	col, row := int(int8(zzverif.Byte("col"))), int(int8(zzverif.Byte("row")))
	cols, rows := int(int8(zzverif.Byte("cols"))), int(int8(zzverif.Byte("rows")))
	zzverif.Assume(col >= -4 && col <= 4 && row >= -4 && row <= 4)
	zzverif.Assume(cols >= 1 && cols <= 3 && rows >= 1 && rows <= 3)
	win := vx.Window().New(col, row, cols, rows)
	ww, wh := win.Size()
	zzverif.Assume(ww >= 1 && wh >= 1)
	if zzverif.Bool("focused") {
		vt.Focus()
	}
	zzverif.Terminates(400)
	vt.Draw(win)
	ok := true
	for y := 0; y < H; y++ {
		for x := 0; x < W; x++ {
			changed := vaxis.VerifNextCell(vx, x, y).Attribute != 0 || vaxis.VerifNextCell(vx, x, y).Grapheme != ""
			inside := x >= col && x < col+ww && y >= row && y < row+wh
			ok = ok && (!changed || inside)
		}
	}
	zzverif.Assert(ok, "draw-outside-host-window")
	zzverif.Assert(vt.width() == ww && vt.height() == wh, "emulator-resized-to-window")
	zzverif.Reach("end")
}
