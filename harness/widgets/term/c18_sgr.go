package term

import (
	"strings"

	"git.sr.ht/~rockorager/vaxis"
	"git.sr.ht/~rockorager/vaxis/ansi"
	"git.sr.ht/~rockorager/vaxis/zzverif"
)

// VerifC18TermSGRNoPanic: (*Model).sgr on an arbitrary parameter list never panics.
func VerifC18TermSGRNoPanic() {
	vt := verifModel(2, 2)
	n := 1 + zzverif.Choose("n", zzverif.Param("maxn"))
	params := make([][]int, n)
	heads := []int{0, 1, 2, 4, 5, 38, 48, 58}
	for i := range params {
		ns := 1 + zzverif.Choose("nsub", 6)
		params[i] = make([]int, ns)
		for j := range params[i] {
			params[i][j] = zzverif.Int("v")
		}
		if i > 0 {
			params[i][0] = heads[zzverif.Choose("head", len(heads))]
		}
	}
	vt.sgr(params)
	zzverif.Reach("end")
}

var verifColours = []vaxis.Color{0, vaxis.IndexColor(0), vaxis.IndexColor(7), vaxis.IndexColor(8), vaxis.IndexColor(15), vaxis.IndexColor(16), vaxis.IndexColor(255), vaxis.RGBColor(1, 22, 233), vaxis.RGBColor(0, 0, 0)}

func verifSymStyle(tag string, colours bool) vaxis.Style {
	var st vaxis.Style
	if !colours {
		st.Attribute = vaxis.AttributeMask(zzverif.Uint8(tag+".attr")) & 0xFE
		if zzverif.Param("first") == 2 {
			st.Attribute &= vaxis.AttrBold | vaxis.AttrDim | vaxis.AttrItalic | vaxis.AttrBlink
		} else {
			st.UnderlineStyle = vaxis.UnderlineStyle(zzverif.Choose(tag+".ul", 6))
		}
		return st
	}
	c := verifColours[zzverif.Choose(tag+".colour", len(verifColours))]
	switch zzverif.Param("chan") {
	case 0:
		st.Foreground = c
	case 1:
		st.Background = c
	case 2:
		st.UnderlineColor = c
		st.UnderlineStyle = vaxis.UnderlineSingle
	}
	return st
}

func verifSame(a, b vaxis.Style) bool {
	return a.Attribute == b.Attribute && a.UnderlineStyle == b.UnderlineStyle && a.Foreground == b.Foreground &&
		a.Background == b.Background && a.UnderlineColor == b.UnderlineColor
}

// VerifC18Agreement: the SGR bytes EncodeCells and StyledString.Encode produce for a pair
// of styled cells are understood identically by ParseStyledString (parseSGR),
// NewStyledString and the embedded terminal (real parser + (*Model).sgr + print).
func VerifC18Agreement() {
	colours := zzverif.Param("colours") != 0
	if colours && zzverif.Bool("forceLegacySGR") {
		vaxis.VerifForceLegacySGR()
	}
	c1 := vaxis.Cell{Character: vaxis.Character{Grapheme: "a", Width: 1}}
	if zzverif.Param("first") != 0 {
		c1.Style = verifSymStyle("s1", colours)
	}
	c2 := vaxis.Cell{Character: vaxis.Character{Grapheme: "b", Width: 1}, Style: verifSymStyle("s2", colours)}
	var enc string
	if zzverif.Param("encoder") == 0 {
		enc = vaxis.EncodeCells([]vaxis.Cell{c1, c2})
	} else {
		enc = (&vaxis.StyledString{Cells: []vaxis.Cell{c1, c2}}).Encode()
	}
	a := vaxis.ParseStyledString(enc)
	vx := vaxis.VerifBare(4, 2)
	b := vx.NewStyledString(enc, vaxis.Style{})
	vt := verifModel(4, 2)
	// text following the encoded string: every consumer is back at the default style
	vt.parser = ansi.NewParser(strings.NewReader(enc + "x"))
	for seq := range vt.parser.Next() {
		if _, ok := seq.(ansi.EOF); ok {
			break
		}
		vt.update(seq)
	}
	zzverif.Assert(len(a) == 2 && len(b.Cells) == 2, "both-parsers-return-two-cells")
	if len(a) == 2 && len(b.Cells) == 2 {
		e1, e2 := vt.activeScreen[0][0].Style, vt.activeScreen[0][1].Style
		zzverif.Assert(verifSame(a[0].Style, c1.Style) && verifSame(a[1].Style, c2.Style), "parseSGR-understands-encoder")
		zzverif.Assert(verifSame(b.Cells[0].Style, c1.Style) && verifSame(b.Cells[1].Style, c2.Style), "NewStyledString-understands-encoder")
		zzverif.Assert(verifSame(e1, c1.Style) && verifSame(e2, c2.Style), "embedded-terminal-understands-encoder")
		zzverif.Assert(vt.activeScreen[0][0].Grapheme == "a" && vt.activeScreen[0][1].Grapheme == "b", "embedded-terminal-text")
		zzverif.Assert(vt.activeScreen[0][2].Grapheme == "x" && verifSame(vt.activeScreen[0][2].Style, vaxis.Style{}), "embedded-terminal-is-reset-after-the-string")
	}
	zzverif.Reach("end")
}

// VerifC18TermLegacyTruncated: the legacy semicolon forms of the extended colours (38/48/58
// followed by 2;r;g;b or 5;n as separate parameters), complete and truncated at every point,
// after 0-3 ordinary parameters: (*Model).sgr never panics.
func VerifC18TermLegacyTruncated() {
	vt := verifModel(2, 2)
	var params [][]int
	for i := zzverif.Choose("prefix", 4); i > 0; i-- {
		params = append(params, []int{1})
	}
	params = append(params, []int{[]int{38, 48, 58}[zzverif.Choose("head", 3)]})
	m := zzverif.Choose("following", 6)
	for i := 0; i < m; i++ {
		v := []int{0, 300}[zzverif.Choose("v", 2)]
		if i == 0 {
			v = []int{2, 5, 7}[zzverif.Choose("kind", 3)]
		}
		params = append(params, []int{v})
	}
	vt.sgr(params)
	zzverif.Reach("end")
}

// VerifC18LegacyAgreement: the complete legacy (semicolon) forms of the extended colours,
// 38/48/58 ; 2 ; r ; g ; b and 38/48/58 ; 5 ; n with free values, between an ordinary
// parameter before and after: the embedded terminal and parseSGR understand them identically
// (same colours, and parsing resumes at the right parameter).
func VerifC18LegacyAgreement() {
	vt := verifModel(2, 2)
	var params [][]int
	if zzverif.Bool("boldBefore") {
		params = append(params, []int{1})
	}
	params = append(params, []int{[]int{38, 48, 58}[zzverif.Choose("head", 3)]})
	if zzverif.Bool("rgb") {
		params = append(params, []int{2}, []int{int(zzverif.Byte("r"))}, []int{int(zzverif.Byte("g"))}, []int{int(zzverif.Byte("b"))})
	} else {
		params = append(params, []int{5}, []int{int(zzverif.Byte("n"))})
	}
	if zzverif.Bool("italicAfter") {
		params = append(params, []int{3})
	}
	vt.sgr(params)
	want := vaxis.VerifParseSGR(params)
	zzverif.Assert(verifSame(vt.cursor.Style, want), "embedded-terminal-and-parseSGR-agree-on-legacy-extended-colours")
	zzverif.Reach("end")
}
