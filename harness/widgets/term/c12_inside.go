package term

import (
	"fmt"
	"strings"

	"git.sr.ht/~rockorager/vaxis"
	"git.sr.ht/~rockorager/vaxis/ansi"
	"git.sr.ht/~rockorager/vaxis/zzverif"
)

type verifCellSpec struct {
	g string
	w int
}

var verifC12Alphabet = []verifCellSpec{{"", 0}, {"a", 1}, {"b", 0}, {"世", 2}, {"é", 0}}

// the free style of the boundary variant (mode 5), fixed for the whole path
var (
	verifC12Attr uint8
	verifC12Ul   int
)

func verifFeedBytes(vt *Model, b []byte) {
	vt.parser = ansi.NewParser(strings.NewReader(string(b)))
	for seq := range vt.parser.Next() {
		if _, ok := seq.(ansi.EOF); ok {
			break
		}
		vt.update(seq)
	}
}

func verifC12Width(g string, w int) int {
	if w != 0 {
		return w
	}
	switch g {
	case "世":
		return 2
	case "":
		return 0
	}
	return 1
}

// verifC12Compare: the emulator's grid and cursor reproduce the application's screen.
func verifC12Compare(vt *Model, vx *vaxis.Vaxis, cols, rows int, tag string) {
	cellsOK, styleOK := true, true
	for r := 0; r < rows; r++ {
		for c := 0; c < cols; {
			app := vaxis.VerifNextCell(vx, c, r)
			w := verifC12Width(app.Grapheme, app.Width)
			g := app.Grapheme
			if w == 0 {
				g, w = " ", 1
			}
			em := vt.activeScreen[r][c]
			eg := em.Grapheme
			if eg == "" {
				eg = " "
			}
			cellsOK = cellsOK && eg == g && (em.Width == w || em.Width == 0 && w == 1)
			want := vaxis.VerifExpectStyle(vx, app.Style)
			styleOK = styleOK && em.Foreground == want.Foreground && em.Background == want.Background && em.Attribute == want.Attribute &&
				em.UnderlineStyle == want.UnderlineStyle && em.UnderlineColor == want.UnderlineColor && em.Hyperlink == want.Hyperlink && em.HyperlinkParams == want.HyperlinkParams
			c += w
		}
	}
	zzverif.Assert(cellsOK, tag+":emulator-graphemes-equal-application-screen")
	zzverif.Assert(styleOK, tag+":emulator-styles-equal-application-screen")
	crow, ccol, cstyle, visible := vaxis.VerifCursor(vx)
	if visible {
		zzverif.Assert(vt.mode.dectcem && int(vt.cursor.row) == crow && int(vt.cursor.col) == ccol && vt.cursor.style == cstyle, tag+":emulator-cursor-as-requested")
	} else {
		zzverif.Assert(!vt.mode.dectcem, tag+":emulator-cursor-hidden")
	}
}

// VerifC12Frames: two frames of a Vaxis application (capabilities: what the emulator
// advertises) are rendered; the bytes go through the real parser into the real emulator of
// the same size; after each frame the emulator's grid and cursor equal the application's
// screen, and drawing the emulator into a host window of that size yields the same cells.
func VerifC12Frames() {
	cols, rows := zzverif.Param("cols"), zzverif.Param("rows")
	mode := zzverif.Param("mode")
	vx, take := vaxis.VerifRenderVaxis(cols, rows)
	vaxis.VerifSetSixelCap(vx)
	vt := verifModel(cols, rows)
	vt.mode.dectcem = false // start-up hides the cursor (C04)
	if mode == 5 {
		verifC12Attr, verifC12Ul = zzverif.Uint8("attr"), zzverif.Choose("ul", 3)
	}
	for f := 0; f < 2; f++ {
		if mode == 6 && f == 1 {
			break // a single frame
		}
		win := vx.Window()
		win.Clear()
		for r := 0; r < rows; r++ {
			for c := 0; c < cols; c++ {
				sel := 1
				if mode == 6 {
					sel = 1
				} else if mode == 5 {
					// pen carried across the frame boundary: frame 1 ends with a styled cell,
					// frame 2 starts with a plain changed cell (cell 1 unchanged or plain too)
					sel = 1 + f
					if f == 1 && c == 1 && zzverif.Bool("keepLast") {
						sel = 1
					}
				} else if mode == 4 {
					sel = zzverif.Choose("cell", 2)
				} else if mode != 3 {
					sel = zzverif.Choose("cell", len(verifC12Alphabet))
				}
				sp := verifC12Alphabet[sel]
				zzverif.Assume(!(sp.g == "世" && c == cols-1))
				var st vaxis.Style
				if mode == 6 {
					// both cells of the single frame with free bold / dim / italic / blink masks
					m := vaxis.AttrBold | vaxis.AttrDim | vaxis.AttrItalic | vaxis.AttrBlink
					st.Attribute = vaxis.AttributeMask(zzverif.Uint8("pairattr")) & m
				} else if mode == 5 && (f == 0 && c == cols-1 || f == 1 && c == cols-1 && sel == 1) {
					st.Attribute = vaxis.AttributeMask(verifC12Attr) & 0xFE
					st.UnderlineStyle = vaxis.UnderlineStyle(verifC12Ul)
				} else if sel != 0 && mode == 1 {
					st.Attribute = vaxis.AttributeMask(zzverif.Uint8("attr")) & 0xFE
					st.UnderlineStyle = vaxis.UnderlineStyle(zzverif.Choose("ul", 3))
				} else if sel != 0 && mode == 2 {
					st.Foreground = []vaxis.Color{0, vaxis.IndexColor(3), vaxis.IndexColor(12), vaxis.IndexColor(100), vaxis.RGBColor(1, 2, 3)}[zzverif.Choose("fg", 5)]
					st.Background = []vaxis.Color{0, vaxis.IndexColor(3), vaxis.RGBColor(200, 0, 0)}[zzverif.Choose("bg", 3)]
					if zzverif.Bool("link") {
						st.Hyperlink = "http://a"
						st.HyperlinkParams = []string{"", "id=main", "id=x:k=v"}[zzverif.Choose("linkparams", 3)]
					}
				} else if sel != 0 && mode == 4 {
					// hyperlinks: two URLs, with and without id parameters, next to each other
					l := zzverif.Choose("link", 6)
					st.Hyperlink = []string{"", "http://a", "http://a", "http://b", "http://a", "http://a/d;v=2?x=1;y=2"}[l]
					st.HyperlinkParams = []string{"", "", "id=main", "id=main", "id=x:k=v", "id=main"}[l]
				} else if mode == 3 && r == 0 && c == f%cols {
					// any palette index: the renderer's and the emulator's boundaries between
					// the 8 normal, 8 bright and 240 extended colours are found by the solver
					st.Foreground = vaxis.IndexColor(zzverif.Uint8("fgi"))
					st.Background = vaxis.IndexColor(zzverif.Uint8("bgi"))
				}
				if sel != 0 {
					win.SetCell(c, r, vaxis.Cell{Character: vaxis.Character{Grapheme: sp.g, Width: sp.w}, Style: st})
				}
				if sp.g == "世" {
					c++
				}
			}
		}
		if mode < 3 && zzverif.Bool("showCursor") {
			vx.ShowCursor(zzverif.Choose("ccol", cols), zzverif.Choose("crow", rows), vaxis.CursorStyle(2*zzverif.Choose("shape", 2)))
		} else {
			vx.HideCursor()
		}
		if f == 0 || mode != 3 && mode != 5 && mode != 6 && zzverif.Bool("refresh") {
			vx.Refresh()
		} else {
			vx.Render()
		}
		verifFeedBytes(vt, take())
		verifC12Compare(vt, vx, cols, rows, "frame")
	}
	// host: draw the emulator into a window of the same size of a second Vaxis
	host := vaxis.VerifBare(cols, rows)
	vt.Draw(host.Window())
	hostOK := true
	for r := 0; r < rows; r++ {
		for c := 0; c < cols; {
			app := vaxis.VerifNextCell(vx, c, r)
			w := verifC12Width(app.Grapheme, app.Width)
			g := app.Grapheme
			if w == 0 {
				g, w = " ", 1
			}
			hc := vaxis.VerifNextCell(host, c, r)
			want := vaxis.VerifExpectStyle(vx, app.Style)
			hostOK = hostOK && hc.Grapheme == g && hc.Foreground == want.Foreground && hc.Background == want.Background && hc.Attribute == want.Attribute &&
				hc.UnderlineStyle == want.UnderlineStyle && hc.Hyperlink == want.Hyperlink && hc.HyperlinkParams == want.HyperlinkParams
			c += w
		}
	}
	zzverif.Assert(hostOK, "host-window-shows-the-same-cells")
	zzverif.Reach("end")
}

// VerifC12Replies: Vaxis's start-up queries are fed to the emulator (real parser, real
// update); the bytes the emulator writes back are fed to Vaxis's input side (real parser,
// real handleSequence): what Vaxis concludes is exactly what the emulator implements: sixel
// graphics and nothing else (no synchronized output, Unicode core, colour-scheme updates,
// kitty keyboard or graphics, RGB, styled underlines, in-band resize, explicit width), the
// device-attributes marker last, and no reply is taken for user input.
func VerifC12Replies() {
	vt := verifModel(4, 2)
	for _, q := range vaxis.VerifStartupQueries() {
		verifFeedBytes(vt, []byte(q))
	}
	reply := zzverif.FileLog(vt.pty)
	names, probeCol := vaxis.VerifUnderstoodReplies(reply)
	want := []string{"sixel", "da1"}
	same := len(names) == len(want)
	for i := 0; same && i < len(want); i++ {
		same = names[i] == want[i]
	}
	zzverif.Assert(same, "vaxis-concludes-exactly-what-the-emulator-implements")
	// explicit-width probe: the emulator does not implement OSC 66, the cursor must not have
	// advanced (column 0), i.e. Vaxis does not conclude explicit-width support
	zzverif.Assert(probeCol == 0, "explicit-width-probe-answered-as-unsupported")
	// any DEC private mode report request (free 16-bit mode number): none of the modes Vaxis
	// asks about is implemented by the emulator, so no report may announce one
	vt2 := verifModel(4, 2)
	mode := int(zzverif.Uint16("mode"))
	verifFeedBytes(vt2, []byte(fmt.Sprintf("\x1b[?%d$p", mode)))
	names2, _ := vaxis.VerifUnderstoodReplies(zzverif.FileLog(vt2.pty))
	zzverif.Assert(len(names2) == 0, "no-mode-report-announces-an-unimplemented-feature")
	zzverif.Reach("end")
}
