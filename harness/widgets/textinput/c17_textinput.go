package textinput

import (
	"git.sr.ht/~rockorager/vaxis"
	"git.sr.ht/~rockorager/vaxis/zzverif"
)

var verifContents = []string{"", "a", "ab", "ab cd", "a, b", "a世é", "x  y"}

func verifStr(cs []vaxis.Character) string {
	s := ""
	for _, c := range cs {
		s += c.Grapheme
	}
	return s
}

// VerifC17TextInput: one operation from an arbitrary valid state (content from a list,
// cursor free in [0,len]): content and cursor equal an ideal grapheme line editor's for the
// character-wise operations, word-wise operations move in the right direction by whole
// characters without changing (or, for Ctrl+w, only shortening) the text, the cursor always
// stays within the text, and Draw terminates for every window width.
func VerifC17TextInput() {
	m := New().SetContent(verifContents[zzverif.Choose("content", len(verifContents))])
	ideal := append([]vaxis.Character{}, m.content...)
	cur := int(zzverif.Byte("cursor"))
	zzverif.Assume(cur >= 0 && cur <= len(ideal))
	m.cursor = cur
	pre := verifStr(ideal)
	key := func(k vaxis.Key) { m.Update(k) }
	exact := true
	op := zzverif.Choose("op", 16)
	switch op {
	case 0:
		key(vaxis.Key{Keycode: 'x', Text: "x"})
		rest := append([]vaxis.Character{}, ideal[cur:]...)
		ideal = append(append(ideal[:cur:cur], vaxis.Character{Grapheme: "x", Width: 1}), rest...)
		cur++
	case 1:
		key(vaxis.Key{Keycode: 'a', Modifiers: vaxis.ModCtrl})
		cur = 0
	case 2:
		key(vaxis.Key{Keycode: vaxis.KeyEnd})
		cur = len(ideal)
	case 3:
		key(vaxis.Key{Keycode: vaxis.KeyRight})
		if cur < len(ideal) {
			cur++
		}
	case 4:
		key(vaxis.Key{Keycode: vaxis.KeyLeft})
		if cur > 0 {
			cur--
		}
	case 5:
		key(vaxis.Key{Keycode: vaxis.KeyDelete})
		if cur < len(ideal) {
			ideal = append(ideal[:cur:cur], ideal[cur+1:]...)
		}
	case 6:
		key(vaxis.Key{Keycode: vaxis.KeyBackspace})
		if cur > 0 {
			ideal = append(ideal[:cur-1:cur-1], ideal[cur:]...)
			cur--
		}
	case 7:
		key(vaxis.Key{Keycode: 'k', Modifiers: vaxis.ModCtrl})
		ideal = ideal[:cur]
	case 8:
		key(vaxis.Key{Keycode: 'u', Modifiers: vaxis.ModCtrl})
		ideal = ideal[cur:]
		cur = 0
	case 9: // forward word
		key(vaxis.Key{Keycode: 'f', Modifiers: vaxis.ModAlt})
		exact = false
		zzverif.Assert(m.cursor >= cur && verifStr(m.content) == pre, "forward-word-moves-forward-only")
	case 10: // backward word
		key(vaxis.Key{Keycode: 'b', Modifiers: vaxis.ModAlt})
		exact = false
		zzverif.Assert(m.cursor <= cur && verifStr(m.content) == pre, "backward-word-moves-backward-only")
	case 11: // delete word backwards
		key(vaxis.Key{Keycode: 'w', Modifiers: vaxis.ModCtrl})
		exact = false
		zzverif.Assert(m.cursor <= cur && len(m.content) == len(ideal)-(cur-m.cursor), "delete-word-removes-exactly-the-skipped-characters")
		zzverif.Assert(verifStr(m.content) == verifStr(ideal[:m.cursor])+verifStr(ideal[cur:]), "delete-word-keeps-the-rest")
	case 12: // bracketed paste of a multi-codepoint grapheme and a letter: "e\u0301" "q"
		m.Update(vaxis.PasteStartEvent{})
		key(vaxis.Key{Keycode: 'e', Text: "e\u0301", EventType: vaxis.EventPaste})
		key(vaxis.Key{Keycode: 'q', Text: "q", EventType: vaxis.EventPaste})
		m.Update(vaxis.PasteEndEvent{})
		rest := append([]vaxis.Character{}, ideal[cur:]...)
		ideal = append(append(ideal[:cur:cur], vaxis.Character{Grapheme: "e\u0301", Width: 1}, vaxis.Character{Grapheme: "q", Width: 1}), rest...)
		cur += 2
	case 13:
		m.SetContent("zz")
		ideal = vaxis.Characters("zz")
		cur = 2
	case 14: // a release event changes nothing
		key(vaxis.Key{Keycode: 'x', Text: "x", EventType: vaxis.EventRelease})
	case 15: // one key report whose text holds two graphemes (an input-method commit)
		key(vaxis.Key{Keycode: 0x4e16, Text: "\u4e16\u754c"})
		rest := append([]vaxis.Character{}, ideal[cur:]...)
		ideal = append(append(ideal[:cur:cur], vaxis.Character{Grapheme: "\u4e16", Width: 2}, vaxis.Character{Grapheme: "\u754c", Width: 2}), rest...)
		cur += 2
	}
	if exact {
		zzverif.Assert(verifStr(m.content) == verifStr(ideal), "content-equals-ideal-editor")
		zzverif.Assert(m.cursor == cur, "cursor-equals-ideal-cursor")
	}
	zzverif.Assert(m.cursor >= 0 && m.cursor <= len(m.content), "cursor-within-text")
	// Draw for every window width
	w := int(zzverif.Byte("width"))
	zzverif.Assume(w >= 0 && w <= 12)
	vx := vaxis.VerifBare(12, 1)
	win := vx.Window().New(0, 0, w, 1)
	zzverif.Terminates(600)
	m.Draw(win)
	if w >= len(m.content)*2+scrolloff+1 {
		// the text fits: the drawn cursor column is the width before the cursor
		wantCol := 0
		for i := 0; i < m.cursor; i++ {
			wantCol += m.content[i].Width
		}
		_, col, _, vis := vaxis.VerifCursor(vx)
		zzverif.Assert(vis && col == wantCol, "drawn-cursor-column-is-width-before-cursor")
	}
	zzverif.Reach("end")
}
