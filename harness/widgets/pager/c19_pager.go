package pager

import (
	"git.sr.ht/~rockorager/vaxis"
	"git.sr.ht/~rockorager/vaxis/zzverif"
	"strings"
)

var verifTexts = []string{"", "a", "ab", "abc\n", "ab\ncd", "abcde", "a\n\nb", "世a世", "abc\ndefgh\ni", "ab\r\ncd", "a\r\n\r\nb\n"}

// VerifC19Pager: layout at a free width presents every character of the text (newlines
// excepted), in order, including a last line without terminator; no line is wider than the
// window unless it holds a single glyph; after Draw the offset is clamped to the content.
func VerifC19Pager() {
	text := verifTexts[zzverif.Choose("text", len(verifTexts))]
	w := int(zzverif.Byte("w"))
	zzverif.Assume(w >= 1 && w <= 5)
	h := int(zzverif.Byte("h"))
	zzverif.Assume(h >= 1 && h <= 4)
	// the text arrives as one segment or split into two at a free grapheme boundary
	m := &Model{Segments: []vaxis.Segment{{Text: text}}}
	if chars := vaxis.Characters(text); len(chars) > 1 && zzverif.Bool("twoSegments") {
		k := 1 + zzverif.Choose("split", 3)
		if k >= len(chars) {
			k = len(chars) - 1
		}
		first := ""
		for _, c := range chars[:k] {
			first += c.Grapheme
		}
		m.Segments = []vaxis.Segment{{Text: first}, {Text: text[len(first):], Style: vaxis.Style{Attribute: vaxis.AttrBold}}}
	}
	m.Offset = int(int8(zzverif.Byte("offset")))
	vx := vaxis.VerifBare(5, 4)
	win := vx.Window().New(0, 0, w, h)
	zzverif.Terminates(2000)
	m.Draw(win)
	// logical lines: a cluster containing a newline ("\n" or "\r\n") terminates the line
	want := ""
	var logical []int
	ln := 0
	for _, ch := range vaxis.Characters(text) {
		if strings.ContainsRune(ch.Grapheme, '\n') {
			ln++
			continue
		}
		want += ch.Grapheme
		logical = append(logical, ln)
	}
	got := ""
	okWidth, okBreaks := true, true
	i := 0
	for _, l := range m.lines {
		lw := 0
		first := -1
		for _, c := range l.characters {
			got += c.Grapheme
			lw += c.Width
			if i < len(logical) {
				if first < 0 {
					first = logical[i]
				}
				okBreaks = okBreaks && logical[i] == first
			}
			i++
		}
		okWidth = okWidth && (lw <= w || len(l.characters) == 1)
	}
	zzverif.Assert(got == want, "every-character-presented-in-order")
	zzverif.Assert(okWidth, "no-line-wider-than-window")
	zzverif.Assert(okBreaks, "a-line-terminator-ends-the-line")
	zzverif.Assert(m.Offset >= 0 && (m.Offset == 0 || m.Offset <= len(m.lines)-h), "offset-clamped-to-content")
	zzverif.Reach("end")
}
