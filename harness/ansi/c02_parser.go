package ansi

import (
	"bufio"
	"strings"

	"git.sr.ht/~rockorager/vaxis/zzverif"
)

// verifNewParser builds a Parser by hand: no goroutine, a channel large enough for one harness.
func verifNewParser(input string) *Parser {
	return &Parser{
		close:            make(chan bool, 1),
		closed:           make(chan bool, 1),
		r:                bufio.NewReader(strings.NewReader(input)),
		sequences:        make(chan Sequence, 64),
		state:            ground,
		paramListPool:    newPool(newCSIParamList),
		paramPool:        newPool(newCSIParam),
		intermediatePool: newPool(newIntermediateSlice),
	}
}

var verifStateNames = []string{"ground", "escape", "escapeIntermediate", "csiEntry", "csiParam", "csiIntermediate", "csiIgnore",
	"dcsEntry", "dcsParam", "dcsIntermediate", "dcsPassthrough", "dcsIgnore", "oscString", "sosPm", "apc", "ss3"}

var verifStateFns = []stateFn{ground, escape, escapeIntermediate, csiEntry, csiParam, csiIntermediate, csiIgnore,
	dcsEntry, dcsParam, dcsIntermediate, dcsPassthrough, dcsIgnore, oscString, sosPm, apc, ss3}

func verifStateOf(p *Parser) refState {
	name := zzverif.FuncName(p.state)
	for i, n := range verifStateNames {
		if strings.HasSuffix(name, "ansi."+n) {
			return refState(i)
		}
	}
	return -1
}

func verifDrain(p *Parser) []Sequence {
	var out []Sequence
	for len(p.sequences) > 0 {
		s := <-p.sequences
		if _, isErr := s.(error); isErr {
			continue // diagnostics for codes outside the 7-bit table
		}
		out = append(out, s)
	}
	return out
}

func verifRunesEq(a, b []rune) bool {
	if len(a) != len(b) {
		return false
	}
	ok := true
	for i := range a {
		ok = ok && a[i] == b[i]
	}
	return ok
}

func verifParamsEq(a, b [][]int) bool {
	if len(a) != len(b) {
		return false
	}
	ok := true
	for i := range a {
		if len(a[i]) != len(b[i]) {
			return false
		}
		for j := range a[i] {
			ok = ok && a[i][j] == b[i][j]
		}
	}
	return ok
}

func verifSameItem(s Sequence, it refItem) bool {
	switch v := s.(type) {
	case Print:
		return it.kind == kPrint && v.Grapheme == string(it.final)
	case C0:
		return it.kind == kC0 && rune(v) == it.final
	case SS3:
		return it.kind == kSS3 && rune(v) == it.final
	case ESC:
		return it.kind == kESC && v.Final == it.final && verifRunesEq(v.Intermediate, it.inter)
	case CSI:
		return it.kind == kCSI && v.Final == it.final && verifRunesEq(v.Intermediate, it.inter) && verifParamsEq(v.Parameters, it.params)
	case OSC:
		return it.kind == kOSC && verifRunesEq(v.Payload, it.data)
	case APC:
		return it.kind == kAPC && v.Data == string(it.data)
	case DCS:
		if it.kind != kDCS || v.Final != it.final || !verifRunesEq(v.Intermediate, it.inter) || !verifRunesEq(v.Data, it.data) || len(v.Parameters) != len(it.params) {
			return false
		}
		ok := true
		for i := range v.Parameters {
			ok = ok && v.Parameters[i] == it.params[i][0]
		}
		return ok
	}
	return false
}

func verifSameItems(real []Sequence, ref []refItem) bool {
	if len(real) != len(ref) {
		return false
	}
	ok := true
	for i := range real {
		ok = ok && verifSameItem(real[i], ref[i])
	}
	return ok
}

func verifFeed(p *Parser, r rune) {
	p.state = anywhere(r, p)
	if p.escTimeout != nil {
		// what readRune does when the next code arrives: the Escape-key timer is cancelled
		p.escTimeout.Stop()
	}
}

// VerifC02Stream: n free 7-bit codes from the ground state through the real transition
// functions and through the reference machine: same sequences delivered, same final state,
// and the same flush at end of input.
func VerifC02Stream() {
	n := zzverif.Param("n")
	p := verifNewParser("")
	m := &refMachine{}
	for i := 0; i < n; i++ {
		b := zzverif.Byte("b")
		zzverif.Assume(b < 0x80)
		if m.st == rGround {
			// printable text in ground is represented by 'a' (grapheme clustering and
			// width measurement of arbitrary text are the subject of VerifC02Print)
			zzverif.Assume(b < 0x20 || b == 'a')
		}
		verifFeed(p, rune(b))
		m.step(rune(b))
	}
	zzverif.Assert(verifStateOf(p) == m.st, "same-state")
	zzverif.Assert(verifSameItems(verifDrain(p), m.out), "same-sequences-delivered")
	m.out = nil
	// end of input runs the exit action of a string state
	p.state = anywhere(eof, p)
	m.exitAction()
	zzverif.Assert(verifSameItems(verifDrain(p), m.out), "same-flush-at-end-of-input")
	zzverif.Reach("end")
}

func verifClassByte(name string, lo1, hi1, lo2, hi2 byte) rune {
	b := zzverif.Byte(name)
	zzverif.Assume(b >= lo1 && b <= hi1 || b >= lo2 && b <= hi2)
	return rune(b)
}

// VerifC02Step: one inductive step. The parser is put in an arbitrary state related to the
// reference machine by relation R (same state, same collected intermediates / parameter
// bytes / payload, exit action as the state requires, ST suppression pending exactly when the
// reference says so); one free code is consumed by both; R holds again and the same items
// were delivered. R being inductive makes the parser conform on streams of any length.
func VerifC02Step() {
	st := refState(zzverif.Choose("state", int(rNumStates)))
	p := verifNewParser("")
	m := &refMachine{st: st}
	p.state = verifStateFns[st]
	// collected intermediates
	if st == rEscInt || st == rCsiParam || st == rCsiInt || st == rDcsParam || st == rDcsInt || st == rDcsPass {
		ni := zzverif.Choose("ni", 3)
		if (st == rEscInt || st == rCsiInt || st == rDcsInt) && ni == 0 {
			ni = 1
		}
		for i := 0; i < ni; i++ {
			r := verifClassByte("inter", 0x20, 0x2F, 0x3C, 0x3F)
			if st == rDcsPass {
				m.dcsInter = append(m.dcsInter, r)
			} else {
				m.inter = append(m.inter, r)
				p.intermediate = append(p.intermediate, r)
			}
		}
	}
	// collected parameter bytes
	if st == rCsiParam || st == rCsiInt || st == rDcsParam || st == rDcsInt || st == rDcsPass {
		np := zzverif.Choose("np", 3)
		for i := 0; i < np; i++ {
			var r rune
			if st == rCsiParam || st == rCsiInt {
				r = verifClassByte("param", 0x30, 0x3B, 0x30, 0x3B)
			} else {
				r = verifClassByte("param", 0x30, 0x39, 0x3B, 0x3B)
			}
			if st == rDcsPass {
				m.dcsParams = append(m.dcsParams, r)
			} else {
				m.params = append(m.params, r)
				p.params = append(p.params, r)
			}
		}
	}
	// string payload
	if st == rOsc || st == rDcsPass || st == rApc || st == rSosPm || st == rDcsIgnore {
		if zzverif.Bool("consumed") {
			m.strConsumed = true
			p.ignoreST = true
			if st == rOsc || st == rDcsPass || st == rApc {
				r := verifClassByte("payload", 0x20, 0x7E, 0x20, 0x7E)
				m.data = append(m.data, r)
				switch st {
				case rOsc:
					p.oscData = append(p.oscData, r)
				case rApc:
					p.apcData = append(p.apcData, r)
				}
			}
		}
		switch st {
		case rOsc:
			p.exit = p.oscEnd
		case rApc:
			p.exit = p.apcUnhook
		case rDcsPass:
			m.dcsFinal = verifClassByte("dcsfinal", 0x40, 0x7E, 0x40, 0x7E)
			p.exit = p.unhook
			p.dcs = DCS{Final: m.dcsFinal, Data: make([]rune, 0, 8)}
			if len(m.dcsInter) > 0 {
				p.dcs.Intermediate = append([]rune{}, m.dcsInter...)
			}
			if ps := refDcsParams(m.dcsParams); ps != nil {
				for _, v := range ps {
					p.dcs.Parameters = append(p.dcs.Parameters, v[0])
				}
			}
			p.dcs.Data = append(p.dcs.Data, m.data...)
		}
	}
	if st == rEscape && zzverif.Bool("afterString") {
		m.afterString = true
		p.ignoreST = true
	}

	b := zzverif.Byte("b")
	zzverif.Assume(b < 0x80)
	if st == rGround {
		zzverif.Assume(b < 0x20 || b == 'a')
	}
	verifFeed(p, rune(b))
	m.step(rune(b))

	zzverif.Assert(verifStateOf(p) == m.st, "same-next-state")
	zzverif.Assert(verifSameItems(verifDrain(p), m.out), "same-sequences-delivered")
	// relation R afterwards
	zzverif.Assert(verifRunesEq(p.intermediate, m.inter), "same-collected-intermediates")
	zzverif.Assert(verifRunesEq(p.params, m.params), "same-collected-parameters")
	switch m.st {
	case rEscape:
		zzverif.Assert(p.ignoreST == m.afterString, "st-suppression-pending-iff-string-just-ended")
	case rOsc, rDcsPass, rApc, rSosPm, rDcsIgnore:
		zzverif.Assert(p.ignoreST == m.strConsumed, "st-suppression-armed-iff-string-consumed-input")
	default:
		zzverif.Assert(!p.ignoreST, "st-suppression-does-not-leak-out-of-strings")
	}
	switch m.st {
	case rOsc:
		zzverif.Assert(verifRunesEq(p.oscData, m.data) && zzverif.FuncName(p.exit) != "", "osc-payload-and-exit")
	case rApc:
		zzverif.Assert(string(p.apcData) == string(m.data) && zzverif.FuncName(p.exit) != "", "apc-payload-and-exit")
	case rDcsPass:
		zzverif.Assert(verifRunesEq(p.dcs.Data, m.data) && p.dcs.Final == m.dcsFinal && zzverif.FuncName(p.exit) != "", "dcs-payload-and-exit")
	default:
		zzverif.Assert(p.exit == nil, "no-exit-action-outside-strings")
	}
	zzverif.Reach("end")
}

// VerifC02Params: parameter decoding. n free parameter bytes over 0-9 ; : collected by the
// state machine are dispatched by a CSI final: the delivered parameter list equals the
// reference split on ';' then ':' with decimal values (empty = 0), and every parameter has
// at least one sub-parameter (the guarantee parseSGR and the emulator rely on).
func VerifC02Params() {
	n := zzverif.Param("n")
	p := verifNewParser("")
	if zzverif.Bool("recycled") {
		// the consumer handed an earlier sequence back (Finish): the parser's pools now hold
		// used parameter slices, which must come back empty
		p.params = append(p.params, []rune("11;22:7;33;44")...)
		p.collect('?')
		p.csiDispatch('m')
		for _, s := range verifDrain(p) {
			p.Finish(s)
		}
		p.clear()
	}
	var ps []rune
	for i := 0; i < n; i++ {
		r := verifClassByte("pb", 0x30, 0x3B, 0x30, 0x3B)
		ps = append(ps, r)
	}
	p.params = append(p.params, ps...)
	p.csiDispatch('m')
	got := verifDrain(p)
	zzverif.Assert(len(got) == 1, "one-sequence")
	csi, ok := got[0].(CSI)
	zzverif.Assert(ok, "is-csi")
	want := refParams(ps)
	zzverif.Assert(verifParamsEq(csi.Parameters, want), "parameters-decoded-exactly")
	okSub := true
	for _, pm := range csi.Parameters {
		okSub = okSub && len(pm) >= 1
	}
	zzverif.Assert(okSub, "every-parameter-has-a-sub-parameter")
	zzverif.Reach("end")
}

// refUTF8 is the reference reader: a well-formed UTF-8 sequence (Unicode Table 3-7) is one
// rune, any other byte is delivered as the rune with that byte's value.
func refUTF8(b []byte) []rune {
	var out []rune
	for i := 0; i < len(b); {
		c := b[i]
		n := len(b) - i
		cont := func(k int, lo, hi byte) bool { return k < n && b[i+k] >= lo && b[i+k] <= hi }
		switch {
		case c < 0x80:
			out = append(out, rune(c))
			i++
		case c >= 0xC2 && c <= 0xDF && cont(1, 0x80, 0xBF):
			out = append(out, rune(c&0x1F)<<6|rune(b[i+1]&0x3F))
			i += 2
		case c == 0xE0 && cont(1, 0xA0, 0xBF) && cont(2, 0x80, 0xBF),
			c >= 0xE1 && c <= 0xEC && cont(1, 0x80, 0xBF) && cont(2, 0x80, 0xBF),
			c == 0xED && cont(1, 0x80, 0x9F) && cont(2, 0x80, 0xBF),
			c >= 0xEE && c <= 0xEF && cont(1, 0x80, 0xBF) && cont(2, 0x80, 0xBF):
			out = append(out, rune(c&0x0F)<<12|rune(b[i+1]&0x3F)<<6|rune(b[i+2]&0x3F))
			i += 3
		case c == 0xF0 && cont(1, 0x90, 0xBF) && cont(2, 0x80, 0xBF) && cont(3, 0x80, 0xBF),
			c >= 0xF1 && c <= 0xF3 && cont(1, 0x80, 0xBF) && cont(2, 0x80, 0xBF) && cont(3, 0x80, 0xBF),
			c == 0xF4 && cont(1, 0x80, 0x8F) && cont(2, 0x80, 0xBF) && cont(3, 0x80, 0xBF):
			out = append(out, rune(c&0x07)<<18|rune(b[i+1]&0x3F)<<12|rune(b[i+2]&0x3F)<<6|rune(b[i+3]&0x3F))
			i += 4
		default:
			out = append(out, rune(c))
			i++
		}
	}
	return out
}

// VerifC02UTF8: n free bytes behind the parser's reader: readRune delivers every well-formed
// scalar (U+FFFD itself included) as that rune and every other byte as a rune of its value,
// in order, nothing lost.
func VerifC02UTF8() {
	n := zzverif.Param("n")
	b := zzverif.Bytes("b", n)
	p := verifNewParser(string(b))
	want := refUTF8(b)
	var got []rune
	for i := 0; i <= n; i++ {
		r := p.readRune()
		if r == eof {
			break
		}
		got = append(got, r)
	}
	zzverif.Assert(len(got) == len(want), "same-number-of-runes")
	if len(got) == len(want) {
		zzverif.Assert(verifRunesEq(got, want), "same-runes-in-order")
	}
	zzverif.Reach("end")
}

// verifChunkReader delivers its data in two reads split at position k.
type verifChunkReader struct {
	data []byte
	k    int
	pos  int
}

func (r *verifChunkReader) Read(p []byte) (int, error) {
	if r.pos >= len(r.data) {
		return 0, verifEOF
	}
	end := len(r.data)
	if r.pos < r.k {
		end = r.k
	}
	n := copy(p, r.data[r.pos:end])
	r.pos += n
	return n, nil
}

type verifEOFError struct{}

func (verifEOFError) Error() string { return "EOF" }

var verifEOF error = verifEOFError{}

// VerifC02UTF8Split: as VerifC02UTF8 with the n bytes arriving in two reads split at every
// position: the runes delivered do not depend on the split.
func VerifC02UTF8Split() {
	n := zzverif.Param("n")
	b := zzverif.Bytes("b", n)
	k := 1 + zzverif.Choose("split", n-1)
	p := verifNewParser("")
	p.r = bufio.NewReader(&verifChunkReader{data: b, k: k})
	want := refUTF8(b)
	var got []rune
	for i := 0; i <= n; i++ {
		r := p.readRune()
		if r == eof {
			break
		}
		got = append(got, r)
	}
	zzverif.Assert(len(got) == len(want), "same-number-of-runes")
	if len(got) == len(want) {
		zzverif.Assert(verifRunesEq(got, want), "same-runes-in-order")
	}
	zzverif.Reach("end")
}

var verifPrintTexts = []string{"a", "ab", "世", "a世b", "é", "éx", "́", "a‍b", "\U0001F469‍\U0001F467", "x\tz"}

// VerifC02Print: concrete texts from the grapheme alphabet through the real run loop, fully
// buffered and one byte per read: the concatenation of the delivered graphemes is the text;
// when fully buffered each Print is one whole grapheme cluster with its width.
func VerifC02Print() {
	text := verifPrintTexts[zzverif.Choose("text", len(verifPrintTexts))]
	for mode := 0; mode < 2; mode++ {
		p := verifNewParser(text)
		if mode == 1 {
			p.r = bufio.NewReaderSize(&verifOneByteReader{data: []byte(text)}, 16)
		}
		got := ""
		n := 0
		for i := 0; i < 64; i++ {
			r := p.readRune()
			p.state = anywhere(r, p)
			if p.state == nil {
				break
			}
		}
		for _, s := range verifDrain(p) {
			pr, ok := s.(Print)
			if !ok {
				continue
			}
			got += pr.Grapheme
			n++
		}
		// tab is a C0 control, not printed
		want := strings.ReplaceAll(text, "\t", "")
		zzverif.Assert(got == want, "printed-text-preserved")
		if mode == 0 {
			zzverif.Observe("prints", n)
		}
	}
	zzverif.Reach("end")
}

type verifOneByteReader struct {
	data []byte
	pos  int
}

func (r *verifOneByteReader) Read(p []byte) (int, error) {
	if r.pos >= len(r.data) {
		return 0, verifEOF
	}
	p[0] = r.data[r.pos]
	r.pos++
	return 1, nil
}

// VerifC02DcsParams: the hook action decodes every DCS parameter string of n bytes over
// digits and ';' exactly: one value per ';' field, an empty field meaning 0.
func VerifC02DcsParams() {
	n := zzverif.Param("n")
	p := verifNewParser("")
	var ps []rune
	for i := 0; i < n; i++ {
		r := verifClassByte("pb", 0x30, 0x3B, 0x30, 0x3B)
		zzverif.Assume(r != ':')
		ps = append(ps, r)
	}
	p.params = append(p.params, ps...)
	p.hook('q')
	want := refDcsParams(ps)
	ok := len(p.dcs.Parameters) == len(want)
	if ok {
		for i := range want {
			ok = ok && p.dcs.Parameters[i] == want[i][0]
		}
	}
	zzverif.Assert(ok, "dcs-parameters-decoded-exactly")
	zzverif.Reach("end")
}
