package ansi

// Reference model of the DEC VT500 parser (https://vt100.net/emu/dec_ansi_parser),
// transcribed per state from the published table, plus the library's documented extensions
// (each marked EXT). It shares no code with parser.go.

type refState int

const (
	rGround refState = iota
	rEscape
	rEscInt
	rCsiEntry
	rCsiParam
	rCsiInt
	rCsiIgnore
	rDcsEntry
	rDcsParam
	rDcsInt
	rDcsPass
	rDcsIgnore
	rOsc
	rSosPm
	rApc
	rSS3
	rNumStates
)

type refKind int

const (
	kPrint refKind = iota
	kC0
	kESC
	kSS3
	kCSI
	kOSC
	kDCS
	kAPC
)

type refItem struct {
	kind   refKind
	final  rune
	inter  []rune
	params [][]int
	data   []rune
}

type refMachine struct {
	st          refState
	inter       []rune
	params      []rune
	data        []rune // OSC / DCS / APC payload
	dcsFinal    rune
	dcsInter    []rune
	dcsParams   []rune
	strConsumed bool // the current string state has consumed at least one byte
	afterString bool // the ESC that put us in rEscape arrived in such a string state
	out         []refItem
}

func isC0x(r rune) bool { return r >= 0 && r <= 0x17 || r == 0x19 || r >= 0x1C && r <= 0x1F }

func refParams(ps []rune) [][]int {
	if len(ps) == 0 {
		return nil
	}
	var out [][]int
	cur := []int{}
	v := 0
	for _, b := range ps {
		switch b {
		case ';':
			cur = append(cur, v)
			out = append(out, cur)
			cur = []int{}
			v = 0
		case ':':
			cur = append(cur, v)
			v = 0
		default:
			v = v*10 + int(b-'0')
		}
	}
	cur = append(cur, v)
	out = append(out, cur)
	return out
}

func (m *refMachine) emit(it refItem) { m.out = append(m.out, it) }

func (m *refMachine) clear() { m.inter, m.params = nil, nil }

func (m *refMachine) exitAction() {
	switch m.st {
	case rOsc:
		m.emit(refItem{kind: kOSC, data: m.data})
	case rDcsPass:
		m.emit(refItem{kind: kDCS, final: m.dcsFinal, inter: m.dcsInter, params: refDcsParams(m.dcsParams), data: m.data})
	case rApc:
		m.emit(refItem{kind: kAPC, data: m.data})
	}
	m.data = nil
}

func refDcsParams(ps []rune) [][]int {
	// DCS parameters have no sub-parameters: one value per ';' field
	if len(ps) == 0 {
		return nil
	}
	var out [][]int
	v := 0
	for _, b := range ps {
		if b == ';' {
			out = append(out, []int{v})
			v = 0
		} else {
			v = v*10 + int(b-'0')
		}
	}
	return append(out, []int{v})
}

func (m *refMachine) isStringState() bool {
	return m.st == rOsc || m.st == rDcsPass || m.st == rDcsIgnore || m.st == rSosPm || m.st == rApc
}

func (m *refMachine) enterString(st refState) {
	m.st = st
	m.data = nil
	m.strConsumed = false
}

// step consumes one code (0x00-0x7F; larger values are outside the 7-bit table and are
// only defined here for ground (print) and the string states (payload)).
func (m *refMachine) step(r rune) {
	// anywhere transitions
	switch {
	case r == 0x18 || r == 0x1A:
		m.exitAction()
		m.emit(refItem{kind: kC0, final: r})
		m.st = rGround
		return
	case r == 0x1B:
		m.exitAction()
		if m.st != rEscape { // ESC ESC: whether a pending suppression survives is unconstrained
			m.afterString = m.isStringState() && m.strConsumed
		}
		m.clear()
		m.st = rEscape
		return
	}
	if m.isStringState() {
		m.strConsumed = true
	}
	after := m.afterString
	m.afterString = false
	switch m.st {
	case rGround:
		if isC0x(r) {
			m.emit(refItem{kind: kC0, final: r})
		} else {
			m.emit(refItem{kind: kPrint, final: r})
		}
	case rEscape:
		switch {
		case isC0x(r):
			m.emit(refItem{kind: kC0, final: r})
		case r >= 0x20 && r <= 0x2F:
			m.inter = append(m.inter, r)
			m.st = rEscInt
		case r == 0x5C:
			// EXT: the ST that ends a string is not delivered
			if !after {
				m.emit(refItem{kind: kESC, final: r})
			}
			m.st = rGround
		case r == 0x4F: // EXT: SS3
			m.st = rSS3
		case r == 0x50:
			m.clear()
			m.st = rDcsEntry
		case r == 0x58 || r == 0x5E:
			m.enterString(rSosPm)
		case r == 0x5F:
			m.enterString(rApc)
		case r == 0x5B:
			m.clear()
			m.st = rCsiEntry
		case r == 0x5D:
			m.enterString(rOsc)
		case r >= 0x30 && r <= 0x7E:
			m.emit(refItem{kind: kESC, final: r})
			m.st = rGround
		case r == 0x7F: // EXT: Alt+Backspace
			m.emit(refItem{kind: kESC, final: r})
			m.st = rGround
		}
	case rEscInt:
		switch {
		case isC0x(r):
			m.emit(refItem{kind: kC0, final: r})
		case r >= 0x20 && r <= 0x2F:
			m.inter = append(m.inter, r)
		case r >= 0x30 && r <= 0x7E:
			m.emit(refItem{kind: kESC, final: r, inter: m.inter})
			m.inter = nil
			m.st = rGround
		}
	case rCsiEntry, rCsiParam, rCsiInt:
		switch {
		case isC0x(r):
			m.emit(refItem{kind: kC0, final: r})
		case r == 0x7F:
		case r >= 0x40 && r <= 0x7E:
			m.emit(refItem{kind: kCSI, final: r, inter: m.inter, params: refParams(m.params)})
			m.inter = nil
			m.st = rGround
		case r >= 0x20 && r <= 0x2F:
			m.inter = append(m.inter, r)
			m.st = rCsiInt
		case m.st == rCsiInt: // 0x30-0x3F after an intermediate
			m.st = rCsiIgnore
		case r >= 0x30 && r <= 0x39 || r == 0x3B || r == 0x3A: // 0x3A EXT: sub-parameters
			m.params = append(m.params, r)
			m.st = rCsiParam
		case m.st == rCsiEntry: // private marker 0x3C-0x3F
			m.inter = append(m.inter, r)
			m.st = rCsiParam
		default: // 0x3C-0x3F inside parameters
			m.st = rCsiIgnore
		}
	case rCsiIgnore:
		switch {
		case isC0x(r):
			m.emit(refItem{kind: kC0, final: r})
		case r >= 0x40 && r <= 0x7E:
			m.st = rGround
		}
	case rDcsEntry, rDcsParam, rDcsInt:
		switch {
		case isC0x(r), r == 0x7F:
		case r >= 0x40 && r <= 0x7E:
			m.dcsFinal, m.dcsInter, m.dcsParams = r, m.inter, m.params
			m.inter = nil
			m.enterString(rDcsPass)
		case r >= 0x20 && r <= 0x2F:
			m.inter = append(m.inter, r)
			m.st = rDcsInt
		case m.st == rDcsInt:
			m.enterString(rDcsIgnore)
		case r >= 0x30 && r <= 0x39 || r == 0x3B:
			m.params = append(m.params, r)
			m.st = rDcsParam
		case r == 0x3A:
			m.enterString(rDcsIgnore)
		case m.st == rDcsEntry:
			m.inter = append(m.inter, r)
			m.st = rDcsParam
		default:
			m.enterString(rDcsIgnore)
		}
	case rDcsPass:
		if r != 0x7F {
			m.data = append(m.data, r)
		}
	case rDcsIgnore, rSosPm:
	case rOsc:
		switch {
		case r == 0x07: // EXT: BEL terminates OSC
			m.exitAction()
			m.st = rGround
		case isC0x(r):
		default:
			m.data = append(m.data, r)
		}
	case rApc:
		if !isC0x(r) { // EXT: APC payload is collected
			m.data = append(m.data, r)
		}
	case rSS3:
		switch {
		case isC0x(r):
			m.emit(refItem{kind: kC0, final: r})
		case r == 0x7F:
		default:
			m.emit(refItem{kind: kSS3, final: r})
			m.st = rGround
		}
	}
}
