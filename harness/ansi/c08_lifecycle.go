package ansi

import (
	"bufio"
	"strings"
	"time"

	"git.sr.ht/~rockorager/vaxis/zzverif"
)

type verifFailReader struct {
	data []byte
	pos  int
	err  error
}

func (r *verifFailReader) Read(p []byte) (int, error) {
	if r.pos >= len(r.data) {
		return 0, r.err
	}
	n := copy(p, r.data[r.pos:])
	r.pos += n
	return n, nil
}

// verifCloseReader delivers one byte per Read and calls Close() on the parser while the read
// with index closeAt is in progress (Close requested while the reader is blocked).
type verifCloseReader struct {
	verifFailReader
	p       *Parser
	closeAt int
	reads   int
}

func (r *verifCloseReader) Read(b []byte) (int, error) {
	if r.reads == r.closeAt {
		r.p.Close()
	}
	r.reads++
	if len(b) > 1 {
		b = b[:1]
	}
	return r.verifFailReader.Read(b)
}

type verifIOError struct{}

func (verifIOError) Error() string { return "input/output error" }

// VerifC08RunEnds: run() executed synchronously on n free 7-bit codes after which the reader
// returns EOF or an I/O error (and, optionally, Close() called first): no panic, exactly one
// end-of-input marker, as the last item; the channel is closed and closure is signalled.
func VerifC08RunEnds() {
	n := zzverif.Param("n")
	b := zzverif.Bytes("b", n)
	for i := range b {
		zzverif.Assume(b[i] < 0x80 && (b[i] < 0x20 || b[i] >= 0x7F || b[i] == 'a' || b[i] == '[' || b[i] == ']' || b[i] == 'P' || b[i] == '_' || b[i] == '\\' || b[i] == ';' || b[i] == '1' || b[i] == ' ' || b[i] == 'O'))
	}
	var err error = verifEOF
	if zzverif.Bool("ioerror") {
		err = verifIOError{}
	}
	p := verifNewParser("")
	p.r = bufio.NewReader(&verifFailReader{data: b, err: err})
	closedFirst := zzverif.Bool("closeFirst")
	if closedFirst {
		p.Close()
	} else if zzverif.Bool("closeDuringRead") {
		// Close() arrives while a read is blocked; that read then returns one more byte
		p.r = bufio.NewReader(&verifCloseReader{verifFailReader: verifFailReader{data: b, err: err}, p: p, closeAt: zzverif.Choose("closeAt", n+1)})
	}
	zzverif.Terminates(400)
	p.run()
	// whatever timer is still armed fires now: nothing may be delivered after the end marker
	// (a send on the closed channel panics)
	zzverif.LetTimePass()
	eofs, last := 0, false
	count := 0
	for s := range p.sequences {
		_, isEOF := s.(EOF)
		if isEOF {
			eofs++
		}
		last = isEOF
		count++
	}
	zzverif.Assert(eofs == 1 && last, "exactly-one-end-marker-and-it-is-last")
	zzverif.Assert(len(p.closed) == 1, "closure-signalled")
	if closedFirst {
		zzverif.Assert(count == 1, "close-stops-before-reading")
	}
	zzverif.Reach("end")
}

func verifCopyRunes(r []rune) []rune { return append([]rune{}, r...) }

// VerifC08Ownership: a delivered sequence that the consumer has not handed back is never
// modified by later parsing: CSI / ESC / DCS / OSC with free content is delivered, deep-copied
// and retained; a second sequence of the same kind with different content is parsed; the
// retained original still equals its copy.
func VerifC08Ownership() {
	p := verifNewParser("")
	feed := func(bs []byte) {
		for _, c := range bs {
			verifFeed(p, rune(c))
		}
	}
	kind := zzverif.Choose("kind", 6)
	i1, i2 := byte(verifClassByte("i1", 0x20, 0x2F, 0x20, 0x2F)), byte(verifClassByte("i2", 0x20, 0x2F, 0x20, 0x2F))
	d1, d2 := byte(verifClassByte("d1", 0x30, 0x39, 0x30, 0x39)), byte(verifClassByte("d2", 0x30, 0x39, 0x30, 0x39))
	var first, second []byte
	switch kind {
	case 0:
		first = []byte{0x1B, '[', d1, ';', d1, i1, 'm'}
		second = []byte{0x1B, '[', d2, ';', d2, ';', d2, i2, i2, 'm'}
	case 1:
		first = []byte{0x1B, i1, 'B'}
		second = []byte{0x1B, i2, i2, 'C'}
	case 2:
		first = []byte{0x1B, 'P', d1, i1, 'q', d1, 0x1B, '\\'}
		second = []byte{0x1B, 'P', d2, ';', d2, i2, 'q', d2, d2, 0x1B, '\\'}
	case 3:
		first = []byte{0x1B, ']', d1, d1, 0x07}
		second = []byte{0x1B, ']', d2, d2, d2, 0x07}
	case 4: // CSI with a private marker / intermediate and no parameters
		first = []byte{0x1B, '[', '?', 'u'}
		second = []byte{0x1B, '[', '>', d2, 'c'}
	case 5:
		first = []byte{0x1B, '[', i1, 'p'}
		second = []byte{0x1B, '[', i2, i2, 'q'}
	}
	feed(first)
	got := verifDrain(p)
	zzverif.Assert(len(got) >= 1, "first-delivered")
	retained := got[0]
	var cInter, cData []rune
	var cParams [][]int
	var cDcsParams []int
	switch v := retained.(type) {
	case CSI:
		cInter = verifCopyRunes(v.Intermediate)
		for _, pm := range v.Parameters {
			cParams = append(cParams, append([]int{}, pm...))
		}
	case ESC:
		cInter = verifCopyRunes(v.Intermediate)
	case DCS:
		cInter, cData = verifCopyRunes(v.Intermediate), verifCopyRunes(v.Data)
		cDcsParams = append([]int{}, v.Parameters...)
	case OSC:
		cData = verifCopyRunes(v.Payload)
	}
	// the consumer finishes everything it does not retain, as vaxis does
	for _, s := range got[1:] {
		p.Finish(s)
	}
	feed(second)
	for _, s := range verifDrain(p) {
		p.Finish(s)
	}
	feed(second) // run ahead further, reusing pooled buffers
	ok := true
	switch v := retained.(type) {
	case CSI:
		ok = verifRunesEq(v.Intermediate, cInter) && verifParamsEq(v.Parameters, cParams)
	case ESC:
		ok = verifRunesEq(v.Intermediate, cInter)
	case DCS:
		ok = verifRunesEq(v.Intermediate, cInter) && verifRunesEq(v.Data, cData) && len(v.Parameters) == len(cDcsParams)
		for i := range cDcsParams {
			ok = ok && v.Parameters[i] == cDcsParams[i]
		}
	case OSC:
		ok = verifRunesEq(v.Payload, cData)
	}
	zzverif.Assert(ok, "retained-sequence-unchanged-by-later-parsing")
	zzverif.Reach("end")
}

// VerifC08Escape: ESC followed by one more code X (another ESC, CAN, or a letter) read through
// the real readRune. Either the disambiguation delay elapses between the two (silence) or X
// arrives promptly; afterwards the stream stays open and time passes. A lone ESC followed by
// silence is reported as the Escape key exactly once and X is then parsed from ground; an ESC
// promptly followed by X is never reported as Escape.
func VerifC08Escape() {
	x := []byte{0x1B, 0x18, 'a', 'Z', '['}[zzverif.Choose("x", 5)]
	p := verifNewParser("")
	// the ESC arrives in the ground state, or inside a control string that has already
	// consumed payload (an unterminated OSC or DCS): there it ends the string and is an ESC
	// like any other
	prefix := [][]byte{nil, []byte("\x1b]0;t"), []byte("\x1bP1$qx")}[zzverif.Choose("prefix", 3)]
	data := append(append([]byte{}, prefix...), 0x1B, x)
	p.r = bufio.NewReader(&verifChunkReader{data: data, k: 1})
	step := func() {
		r := p.readRune()
		p.mu.Lock()
		p.state = anywhere(r, p)
		p.mu.Unlock()
	}
	for range prefix {
		step()
	}
	step() // ESC
	silence := zzverif.Bool("silence")
	if silence {
		zzverif.LetTimePass()
	}
	step() // X
	zzverif.LetTimePass()
	escapes := 0
	var rest []Sequence
	for _, s := range verifDrain(p) {
		if c, ok := s.(C0); ok && c == 0x1B {
			escapes++
			continue
		}
		switch s.(type) {
		case OSC, DCS:
			if prefix != nil {
				continue // the control string the ESC ended
			}
		}
		rest = append(rest, s)
	}
	wantEsc := 0
	if silence {
		wantEsc++
	}
	if x == 0x1B {
		wantEsc++ // the second ESC is itself followed by silence
	}
	zzverif.Assert(escapes == wantEsc, "escape-key-reported-exactly-when-esc-is-followed-by-silence")
	switch {
	case x == 0x18:
		zzverif.Assert(len(rest) == 1, "can-executed")
	case x == 0x1B || x == '[' && !silence:
		zzverif.Assert(len(rest) == 0, "nothing-else-delivered")
	case silence:
		pr, ok := firstPrint(rest)
		zzverif.Assert(ok && pr.Grapheme == string([]byte{x}), "after-silence-the-code-is-parsed-from-ground")
	default:
		e, ok := firstESC(rest)
		zzverif.Assert(ok && e.Final == rune(x), "prompt-code-continues-the-escape-sequence")
	}
	zzverif.Reach("end")
}

func firstPrint(s []Sequence) (Print, bool) {
	if len(s) != 1 {
		return Print{}, false
	}
	p, ok := s[0].(Print)
	return p, ok
}

func firstESC(s []Sequence) (ESC, bool) {
	if len(s) != 1 {
		return ESC{}, false
	}
	e, ok := s[0].(ESC)
	return e, ok
}

// VerifC08SlowConsumer: the real run loop in its goroutine, a stream in which every ESC is
// promptly followed by further bytes (it arrives in one read), and a consumer that starts
// draining the two-slot channel only after a delay (virtual time: timers fire in deadline
// order when every goroutine is blocked): however long the parser waits for the consumer,
// no ESC of the stream is reported as the Escape key, and the sequences arrive complete and
// in order.
func VerifC08SlowConsumer() {
	streams := []string{"ab\x1b]0;t\x1b\\z", "ab\x1bP1$qm\x1b\\z", "abc\x1b[Az", "ab\x1b_Gi=1\x1b\\z", "ab\x1b"}
	k := zzverif.Choose("stream", len(streams))
	var p *Parser
	if k == 4 {
		// Close() arrives while the read that returns a final lone ESC is in progress: the run
		// loop ends with the Escape timer just armed and the channel full
		r := &verifCloseReader{verifFailReader: verifFailReader{data: []byte(streams[k]), err: verifEOF}, closeAt: 2}
		p = NewParser(r)
		r.p = p
	} else {
		p = NewParser(strings.NewReader(streams[k]))
	}
	<-time.After(50 * time.Millisecond) // the consumer is busy elsewhere
	escapes, prints := 0, ""
	strings_, csis := 0, 0
	zzverif.Terminates(3000)
	for s := range p.Next() {
		switch s := s.(type) {
		case C0:
			if s == 0x1B {
				escapes++
			}
		case Print:
			prints += s.Grapheme
		case OSC, DCS, APC:
			strings_++
		case CSI:
			csis++
		}
		if _, ok := s.(EOF); ok {
			break
		}
		p.Finish(s)
		<-time.After(20 * time.Millisecond) // ... and slow
	}
	if k == 4 {
		// nothing may follow the end marker (a send on the closed channel panics); whether the
		// final ESC is still reported is not constrained here
		zzverif.LetTimePass()
		zzverif.Assert(prints == "ab", "text-before-close-delivered")
		zzverif.Reach("end")
		return
	}
	zzverif.Assert(escapes == 0, "no-escape-key-for-an-esc-promptly-followed-by-bytes")
	wantPrints := []string{"abz", "abz", "abcz", "abz"}[k]
	zzverif.Assert(prints == wantPrints, "printable-text-complete-and-in-order")
	if k == 2 {
		zzverif.Assert(csis == 1 && strings_ == 0, "one-control-sequence")
	} else {
		zzverif.Assert(strings_ == 1 && csis == 0, "one-control-string")
	}
	zzverif.Reach("end")
}
