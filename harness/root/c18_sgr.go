package vaxis

import "git.sr.ht/~rockorager/vaxis/zzverif"

// verifSymSGRParams builds an SGR parameter list of symbolic shape: n parameters with
// 1..6 sub-parameters each (csiDispatch guarantees >= 1, see C02); the first value of each
// parameter is free for parameter 0 and drawn from the extended-colour heads otherwise, all
// other values are free.
func verifSymSGRParams(maxn int) [][]int {
	n := 1 + zzverif.Choose("n", maxn)
	params := make([][]int, n)
	heads := []int{0, 1, 2, 4, 5, 38, 48, 58}
	for i := range params {
		ns := 1 + zzverif.Choose("nsub", 6)
		params[i] = make([]int, ns)
		for j := range params[i] {
			params[i][j] = zzverif.Int("v")
		}
		if i > 0 {
			params[i][0] = heads[zzverif.Choose("head", len(heads))]
		}
	}
	return params
}

// VerifC18ParseSGRNoPanic: parseSGR on an arbitrary parameter list never panics (truncated
// extended-colour forms included).
func VerifC18ParseSGRNoPanic() {
	params := verifSymSGRParams(zzverif.Param("maxn"))
	var st Style
	parseSGR(params, &st)
	zzverif.Reach("end")
}

var verifColours = []Color{0, IndexColor(0), IndexColor(7), IndexColor(8), IndexColor(15), IndexColor(16), IndexColor(255), RGBColor(1, 22, 233), RGBColor(0, 0, 0)}

// verifSymStyle: colours=false frees the attribute mask and underline style (colours
// default); colours=true frees the three colours over the class representatives (attributes
// off). The two concerns are encoded by independent code in every encoder.
func verifSymStyle(tag string, colours bool) Style {
	var st Style
	if !colours {
		st.Attribute = AttributeMask(zzverif.Uint8(tag+".attr")) & 0xFE
		if zzverif.Param("first") == 2 {
			// pair mode: both cells free over bold/dim/italic/blink (16 x 16 transitions)
			st.Attribute &= AttrBold | AttrDim | AttrItalic | AttrBlink
		} else {
			st.UnderlineStyle = UnderlineStyle(zzverif.Choose(tag+".ul", 6))
		}
	}
	if colours {
		// one colour channel varies at a time (the channel is a harness parameter)
		c := verifColours[zzverif.Choose(tag+".colour", len(verifColours))]
		switch zzverif.Param("chan") {
		case 0:
			st.Foreground = c
		case 1:
			st.Background = c
		case 2:
			st.UnderlineColor = c
			// an underline colour with or without an underline (the colour is pen state of
			// its own: it must round-trip and be reset at the end either way)
			if zzverif.Bool(tag + ".underlined") {
				st.UnderlineStyle = UnderlineSingle
			}
		}
	}
	return st
}

func verifSameStyle(a, b Style) bool {
	return a.Attribute == b.Attribute && a.UnderlineStyle == b.UnderlineStyle && a.Foreground == b.Foreground &&
		a.Background == b.Background && a.UnderlineColor == b.UnderlineColor
}

// VerifC18StyledString: StyledString.Encode followed by NewStyledString returns the same
// graphemes and styles for every transition between two neighbouring cells.
func VerifC18StyledString() {
	colours := zzverif.Param("colours") != 0
	// with or without the user option that makes the library write the legacy (semicolon)
	// forms of the extended colours
	if colours && zzverif.Bool("forceLegacySGR") {
		VerifForceLegacySGR()
	}
	vx := verifBareVaxis(4, 2)
	c1 := Cell{Character: Character{Grapheme: "a", Width: 1}}
	if zzverif.Param("first") != 0 {
		c1.Style = verifSymStyle("s1", colours)
	}
	c2 := Cell{Character: Character{Grapheme: "世", Width: 2}, Style: verifSymStyle("s2", colours)}
	ss := &StyledString{Cells: []Cell{c1, c2}}
	enc := ss.Encode()
	got := vx.NewStyledString(enc, Style{})
	zzverif.Assert(len(got.Cells) == 2, "two-cells-back")
	if len(got.Cells) == 2 {
		zzverif.Assert(got.Cells[0].Grapheme == "a" && got.Cells[1].Grapheme == "世", "graphemes-round-trip")
		zzverif.Assert(verifSameStyle(got.Cells[0].Style, c1.Style), "first-style-round-trips")
		zzverif.Assert(verifSameStyle(got.Cells[1].Style, c2.Style), "second-style-round-trips")
	}
	// the encoded string leaves styles reset: parsing "<enc>x" gives x the default style
	tail := vx.NewStyledString(enc+"x", Style{})
	if len(tail.Cells) == 3 {
		zzverif.Assert(verifSameStyle(tail.Cells[2].Style, Style{}), "encoded-string-ends-reset")
	} else {
		zzverif.Assert(false, "tail-cell-present")
	}
	zzverif.Reach("end")
}

// VerifC18Cells: EncodeCells followed by ParseStyledString (the real parser goroutine under
// the cooperative schedule) returns the same graphemes and styles.
func VerifC18Cells() {
	colours := zzverif.Param("colours") != 0
	// with or without the user option that makes the library write the legacy (semicolon)
	// forms of the extended colours
	if colours && zzverif.Bool("forceLegacySGR") {
		VerifForceLegacySGR()
	}
	c1 := Cell{Character: Character{Grapheme: "a", Width: 1}}
	if zzverif.Param("first") != 0 {
		c1.Style = verifSymStyle("s1", colours)
	}
	c2 := Cell{Character: Character{Grapheme: "b", Width: 1}, Style: verifSymStyle("s2", colours)}
	enc := EncodeCells([]Cell{c1, c2})
	got := ParseStyledString(enc)
	zzverif.Assert(len(got) == 2, "two-cells-back")
	if len(got) == 2 {
		zzverif.Assert(got[0].Grapheme == "a" && got[1].Grapheme == "b", "graphemes-round-trip")
		zzverif.Assert(verifSameStyle(got[0].Style, c1.Style), "first-style-round-trips")
		zzverif.Assert(verifSameStyle(got[1].Style, c2.Style), "second-style-round-trips")
	}
	tail := ParseStyledString(enc + "x")
	if len(tail) == 3 {
		zzverif.Assert(verifSameStyle(tail[2].Style, Style{}), "encoded-string-ends-reset")
	} else {
		zzverif.Assert(false, "tail-cell-present")
	}
	zzverif.Reach("end")
}

// VerifC18LegacyTruncated: as VerifC18TermLegacyTruncated for parseSGR.
func VerifC18LegacyTruncated() {
	var params [][]int
	for i := zzverif.Choose("prefix", 4); i > 0; i-- {
		params = append(params, []int{1})
	}
	params = append(params, []int{[]int{38, 48, 58}[zzverif.Choose("head", 3)]})
	m := zzverif.Choose("following", 6)
	for i := 0; i < m; i++ {
		v := []int{0, 300}[zzverif.Choose("v", 2)]
		if i == 0 {
			v = []int{2, 5, 7}[zzverif.Choose("kind", 3)]
		}
		params = append(params, []int{v})
	}
	var st Style
	parseSGR(params, &st)
	zzverif.Reach("end")
}
