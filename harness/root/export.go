package vaxis

import "git.sr.ht/~rockorager/vaxis/ansi"

// Helpers exported to harnesses living in other packages (overlay only).

// VerifBare builds a Vaxis with buffers only (no console, no goroutines).
func VerifBare(cols, rows int) *Vaxis { return verifBareVaxis(cols, rows) }

// VerifNextCell returns the application's cell at x,y of the next frame.
func VerifNextCell(vx *Vaxis, x, y int) Cell { return vx.screenNext.buf[y][x] }

// VerifCursor returns the cursor requested for the next frame.
func VerifCursor(vx *Vaxis) (row, col int, style CursorStyle, visible bool) {
	c := vx.cursorNext
	return c.row, c.col, c.style, c.visible
}

// VerifDecodeKey exposes decodeKey to harnesses in other packages.
func VerifDecodeKey(seq ansi.Sequence) Key { return decodeKey(seq) }

// VerifParseMouse exposes parseMouseEvent.
func VerifParseMouse(seq ansi.CSI) (Mouse, bool) { return parseMouseEvent(seq) }

// VerifRenderVaxis builds a Vaxis that renders into a recording console (no goroutines) and
// returns a function taking the bytes written since the last call.
func VerifRenderVaxis(cols, rows int) (*Vaxis, func() []byte) {
	vx, con := verifRenderVaxis(cols, rows)
	return vx, con.take
}

// VerifExpectStyle is the style a conforming terminal shows for st under vx's capabilities.
func VerifExpectStyle(vx *Vaxis, st Style) Style { return verifExpectStyle(vx, st) }

// VerifSetSixelCap sets the one capability the embedded terminal advertises (DA1 4).
func VerifSetSixelCap(vx *Vaxis) { vx.caps.sixels = true }
