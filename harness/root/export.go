package vaxis

import "git.sr.ht/~rockorager/vaxis/ansi"

// Helpers exported to harnesses living in other packages (overlay only).

// VerifBare builds a Vaxis with buffers only (no console, no goroutines).
func VerifBare(cols, rows int) *Vaxis { return verifBareVaxis(cols, rows) }

// VerifNextCell returns the application's cell at x,y of the next frame.
func VerifNextCell(vx *Vaxis, x, y int) Cell { return vx.screenNext.buf[y][x] }

// VerifCursor returns the cursor requested for the next frame.
func VerifCursor(vx *Vaxis) (row, col int, style CursorStyle, visible bool) {
	c := vx.cursorNext
	return c.row, c.col, c.style, c.visible
}

// VerifDecodeKey exposes decodeKey to harnesses in other packages.
func VerifDecodeKey(seq ansi.Sequence) Key { return decodeKey(seq) }

// VerifParseMouse exposes parseMouseEvent.
func VerifParseMouse(seq ansi.CSI) (Mouse, bool) { return parseMouseEvent(seq) }
