package vaxis

import (
	"fmt"
	"strings"

	"git.sr.ht/~rockorager/vaxis/ansi"
	"git.sr.ht/~rockorager/vaxis/zzverif"
)

// Helpers exported to harnesses living in other packages (overlay only).

// VerifBare builds a Vaxis with buffers only (no console, no goroutines).
func VerifBare(cols, rows int) *Vaxis { return verifBareVaxis(cols, rows) }

// VerifNextCell returns the application's cell at x,y of the next frame.
func VerifNextCell(vx *Vaxis, x, y int) Cell { return vx.screenNext.buf[y][x] }

// VerifCursor returns the cursor requested for the next frame.
func VerifCursor(vx *Vaxis) (row, col int, style CursorStyle, visible bool) {
	c := vx.cursorNext
	return c.row, c.col, c.style, c.visible
}

// VerifDecodeKey exposes decodeKey to harnesses in other packages.
func VerifDecodeKey(seq ansi.Sequence) Key { return decodeKey(seq) }

// VerifParseMouse exposes parseMouseEvent.
func VerifParseMouse(seq ansi.CSI) (Mouse, bool) { return parseMouseEvent(seq) }

// VerifRenderVaxis builds a Vaxis that renders into a recording console (no goroutines) and
// returns a function taking the bytes written since the last call.
func VerifRenderVaxis(cols, rows int) (*Vaxis, func() []byte) {
	vx, con := verifRenderVaxis(cols, rows)
	return vx, con.take
}

// VerifExpectStyle is the style a conforming terminal shows for st under vx's capabilities.
func VerifExpectStyle(vx *Vaxis, st Style) Style { return verifExpectStyle(vx, st) }

// VerifSetSixelCap sets the one capability the embedded terminal advertises (DA1 4).
func VerifSetSixelCap(vx *Vaxis) { vx.caps.sixels = true }

// VerifStartupQueries returns the queries sendQueries writes at start-up, in its order (the
// explicit-width probe as home + probe + cursor position request).
func VerifStartupQueries() []string {
	return []string{
		userCursorStyle, decrqm(synchronizedUpdate), decrqm(unicodeCore), decrqm(colorThemeUpdates),
		decset(inBandResize), xtversion, kittyKBQuery, kittyGquery, xtsmSixelGeom, textAreaSize,
		"\x1b[H" + fmt.Sprintf(explicitWidth, 1, " ") + dsrcpr,
		xtgettcap("RGB"), tparm(osc4, 1), osc10, osc11, getAppID, xtgettcap("Smulx"),
		tertiaryAttributes, primaryAttributes,
	}
}

// VerifUnderstoodReplies feeds reply bytes through the real input parser into handleSequence
// (with a cursor position request outstanding, as during the explicit-width probe) and names
// what Vaxis concluded from them, in order; anything decoded as user input is named "key".
func VerifUnderstoodReplies(reply []byte) (names []string, probeCol int) {
	vx := verifInputVaxis()
	atomicStore(&vx.reqCursorPos, true)
	done, res := make(chan bool), make(chan int, 1)
	go func() {
		select {
		case pos := <-vx.chCursorPos:
			res <- pos[1] - 1
		case <-done:
			res <- -1
		}
	}()
	parser := ansi.NewParser(strings.NewReader(string(reply)))
	for seq := range parser.Next() {
		if _, ok := seq.(ansi.EOF); ok {
			break
		}
		vx.handleSequence(seq)
		for len(vx.queue) > 0 {
			name := "other"
			switch (<-vx.queue).(type) {
			case capabilitySixel:
				name = "sixel"
			case synchronizedUpdates:
				name = "synchronized-output"
			case unicodeCoreCap:
				name = "unicode-core"
			case notifyColorChange:
				name = "colour-scheme-updates"
			case kittyKeyboard:
				name = "kitty-keyboard"
			case kittyGraphics:
				name = "kitty-graphics"
			case styledUnderlines:
				name = "styled-underlines"
			case truecolor:
				name = "rgb"
			case inBandResizeEvents:
				name = "in-band-resize"
			case textAreaPix:
				name = "size-in-pixels"
			case textAreaChar:
				name = "size-in-cells"
			case capabilityOsc4:
				name = "osc4"
			case capabilityOsc10:
				name = "osc10"
			case capabilityOsc11:
				name = "osc11"
			case terminalID:
				name = "terminal-id"
			case appID:
				name = "app-id"
			case primaryDeviceAttribute:
				name = "da1"
			case Key:
				name = "key"
			}
			names = append(names, name)
		}
	}
	close(done)
	probeCol = <-res
	return
}

// VerifParseSGR applies one SGR parameter list to a default style with the library's parseSGR.
func VerifParseSGR(params [][]int) Style {
	var st Style
	parseSGR(params, &st)
	return st
}

// VerifForceLegacySGR applies the VAXIS_FORCE_LEGACY_SGR quirk (semicolon forms of the
// extended colours in everything the renderer and the cell encoder write).
func VerifForceLegacySGR() {
	zzverif.Setenv("VAXIS_FORCE_LEGACY_SGR", "1")
	verifBareVaxis(1, 1).applyQuirks()
}
