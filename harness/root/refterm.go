package vaxis

import (
	"github.com/containerd/console"
)

// ---------------------------------------------------------------------------------------
// Reference terminal (oracle). Written from ECMA-48 / xterm ctlseqs; shares no code with
// ansi/ or widgets/term/. It interprets the bytes the fake console received.
// ---------------------------------------------------------------------------------------

type rtCell struct {
	g       string
	w       int
	st      Style // colours as library Color values, attrs, underline style; links below
	defined bool  // false: content is terminal-specific or unknown
	cont    bool  // right half of a wide glyph
}

type refTerm struct {
	w, h      int
	grid      [][]rtCell
	pen       Style
	row, col  int
	pending   bool // deferred wrap
	visible   int  // 1 visible, 0 hidden, -1 unknown
	shape     int
	syncDepth int
	modes     map[int]int // DEC private modes: 1 set, 0 reset (absent: untouched)
	keypadApp int         // -1 untouched
	// kitty keyboard protocol: the main and the alternate screen keep independent stacks of
	// enhancement flags; index 0 = main, 1 = alternate. kittyUnderflow records a pop from
	// an empty stack (harmless for the terminal, but an unbalanced pair for the program).
	kittyDepth     [2]int
	unimplemented  map[int]bool // private modes this terminal does not implement (ignored)
	kittyUnderflow bool
	pointer        string
	appID          string
	altScreen      bool
	tags           map[string]bool // capability-gated vocabulary seen
	bad            string          // first sequence outside the vocabulary
	nuls           int
}

func newRefTerm(w, h int) *refTerm {
	t := &refTerm{w: w, h: h, visible: -1, modes: map[int]int{}, keypadApp: -1, tags: map[string]bool{}}
	t.grid = make([][]rtCell, h)
	for r := range t.grid {
		t.grid[r] = make([]rtCell, w) // undefined: "whatever the terminal displayed before"
	}
	t.row, t.col = h-1, w-1
	return t
}

// width of the graphemes of the harness alphabet, as a conforming terminal renders them
func rtWidth(g string) int {
	switch g {
	case "世", "界":
		return 2
	case "":
		return 0
	}
	return 1
}

func (t *refTerm) fail(s string) {
	if t.bad == "" {
		t.bad = s
	}
}

func (t *refTerm) put(g string, w int) {
	if t.pending {
		// wrap: a conforming renderer never relies on this; mark and continue at next row
		t.pending = false
		t.col = 0
		if t.row < t.h-1 {
			t.row++
		}
	}
	if t.row < 0 || t.row >= t.h || t.col < 0 || t.col >= t.w {
		return
	}
	row := t.grid[t.row]
	if w < 1 {
		w = 1
	}
	if t.col+w > t.w {
		// a glyph wider than the rest of the row: terminal-specific
		t.breakGlyph(row, t.col)
		row[t.col] = rtCell{defined: false}
		t.pending = true
		return
	}
	// overwriting part of a wide glyph leaves its other cells terminal-specific
	for k := t.col; k < t.col+w; k++ {
		t.breakGlyph(row, k)
	}
	row[t.col] = rtCell{g: g, w: w, st: t.pen, defined: true}
	for k := 1; k < w; k++ {
		row[t.col+k] = rtCell{g: "", w: 0, st: t.pen, defined: true, cont: true}
	}
	t.col += w
	if t.col >= t.w {
		t.col = t.w - 1
		t.pending = true
	}
}

// breakGlyph: the cell at col is about to be overwritten; if it is part of a glyph wider
// than one cell, every other cell of that glyph becomes terminal-specific.
func (t *refTerm) breakGlyph(row []rtCell, col int) {
	h := col
	for h > 0 && row[h].cont {
		h--
	}
	if !row[h].defined || row[h].w < 2 || col >= h+row[h].w {
		return
	}
	for k, end := h, h+row[h].w; k < end && k < t.w; k++ {
		row[k] = rtCell{defined: false, w: 1}
	}
}

func rtParams(s string) [][]int {
	// s: parameter bytes (digits ; :)
	var out [][]int
	cur := []int{}
	v := 0
	for i := 0; i < len(s); i++ {
		switch s[i] {
		case ';':
			cur = append(cur, v)
			out = append(out, cur)
			cur = []int{}
			v = 0
		case ':':
			cur = append(cur, v)
			v = 0
		default:
			v = v*10 + int(s[i]-'0')
		}
	}
	cur = append(cur, v)
	return append(out, cur)
}

func (t *refTerm) sgr(ps [][]int) {
	for i := 0; i < len(ps); i++ {
		p := ps[i]
		switch {
		case p[0] == 0:
			t.pen = Style{Hyperlink: t.pen.Hyperlink, HyperlinkParams: t.pen.HyperlinkParams}
		case p[0] == 1:
			t.pen.Attribute |= AttrBold
		case p[0] == 2:
			t.pen.Attribute |= AttrDim
		case p[0] == 3:
			t.pen.Attribute |= AttrItalic
		case p[0] == 4:
			if len(p) == 1 {
				t.pen.UnderlineStyle = UnderlineSingle
			} else {
				t.tags["styledUnderlines"] = true
				if p[1] > 5 {
					t.fail("SGR 4:n with n > 5")
				}
				t.pen.UnderlineStyle = UnderlineStyle(p[1])
			}
		case p[0] == 5:
			t.pen.Attribute |= AttrBlink
		case p[0] == 7:
			t.pen.Attribute |= AttrReverse
		case p[0] == 8:
			t.pen.Attribute |= AttrInvisible
		case p[0] == 9:
			t.pen.Attribute |= AttrStrikethrough
		case p[0] == 22:
			t.pen.Attribute &^= AttrBold | AttrDim
		case p[0] == 23:
			t.pen.Attribute &^= AttrItalic
		case p[0] == 24:
			t.pen.UnderlineStyle = UnderlineOff
		case p[0] == 25:
			t.pen.Attribute &^= AttrBlink
		case p[0] == 27:
			t.pen.Attribute &^= AttrReverse
		case p[0] == 28:
			t.pen.Attribute &^= AttrInvisible
		case p[0] == 29:
			t.pen.Attribute &^= AttrStrikethrough
		case p[0] >= 30 && p[0] <= 37:
			t.pen.Foreground = IndexColor(uint8(p[0] - 30))
		case p[0] == 39:
			t.pen.Foreground = 0
		case p[0] >= 40 && p[0] <= 47:
			t.pen.Background = IndexColor(uint8(p[0] - 40))
		case p[0] == 49:
			t.pen.Background = 0
		case p[0] == 59:
			t.tags["styledUnderlines"] = true
			t.pen.UnderlineColor = 0
		case p[0] >= 90 && p[0] <= 97:
			t.pen.Foreground = IndexColor(uint8(p[0] - 90 + 8))
		case p[0] >= 100 && p[0] <= 107:
			t.pen.Background = IndexColor(uint8(p[0] - 100 + 8))
		case p[0] == 38 || p[0] == 48 || p[0] == 58:
			var c Color
			okc := false
			switch {
			case len(p) == 3 && p[1] == 5:
				c, okc = IndexColor(uint8(p[2])), true
			case len(p) == 5 && p[1] == 2:
				c, okc = RGBColor(uint8(p[2]), uint8(p[3]), uint8(p[4])), true
				t.tags["rgb"] = true
			case len(p) == 6 && p[1] == 2:
				c, okc = RGBColor(uint8(p[3]), uint8(p[4]), uint8(p[5])), true
				t.tags["rgb"] = true
			case len(p) == 1 && i+2 < len(ps) && ps[i+1][0] == 5: // legacy 38;5;n
				c, okc = IndexColor(uint8(ps[i+2][0])), true
				i += 2
			case len(p) == 1 && i+4 < len(ps) && ps[i+1][0] == 2: // legacy 38;2;r;g;b
				c, okc = RGBColor(uint8(ps[i+2][0]), uint8(ps[i+3][0]), uint8(ps[i+4][0])), true
				t.tags["rgb"] = true
				i += 4
			}
			if !okc {
				t.fail("malformed extended colour")
				return
			}
			switch p[0] {
			case 38:
				t.pen.Foreground = c
			case 48:
				t.pen.Background = c
			case 58:
				t.tags["styledUnderlines"] = true
				t.pen.UnderlineColor = c
			}
		default:
			t.fail("SGR parameter outside the vocabulary")
		}
	}
}

func (t *refTerm) csi(private byte, params string, inter string, final byte) {
	ps := rtParams(params)
	p0 := ps[0][0]
	switch {
	case private == 0 && inter == "" && final == 'H':
		r, c := p0, 1
		if len(ps) > 1 {
			c = ps[1][0]
		}
		if r < 1 {
			r = 1
		}
		if c < 1 {
			c = 1
		}
		if r > t.h {
			r = t.h
		}
		if c > t.w {
			c = t.w
		}
		t.row, t.col, t.pending = r-1, c-1, false
	case private == 0 && inter == "" && final == 'm':
		if params == "" {
			ps = [][]int{{0}}
		}
		t.sgr(ps)
	case private == 0 && inter == "" && final == 'J' && p0 == 2:
		for r := range t.grid {
			for c := range t.grid[r] {
				t.grid[r][c] = rtCell{g: " ", w: 1, st: Style{Background: t.pen.Background}, defined: true}
			}
		}
	case private == '?' && inter == "" && (final == 'h' || final == 'l'):
		set := 0
		if final == 'h' {
			set = 1
		}
		for _, p := range ps {
			m := p[0]
			if t.unimplemented[m] {
				continue // a terminal ignores private modes it does not implement
			}
			switch m {
			case 25:
				t.visible = set
			case 2026:
				t.tags["synchronizedUpdate"] = true
				if set == 1 {
					t.syncDepth++
				} else {
					t.syncDepth--
				}
			case 1049:
				t.altScreen = set == 1
			case 2027:
				t.tags["unicodeCore"] = true
			case 2031:
				t.tags["colorThemeUpdates"] = true
			case 2048:
				t.tags["inBandResize"] = true
			case 8452:
				t.tags["sixels"] = true
			case 1, 1002, 1003, 1004, 1006, 2004:
			default:
				t.fail("private mode outside the vocabulary")
			}
			t.modes[m] = set
		}
	case private == 0 && inter == " " && final == 'q':
		t.shape = p0
	case private == '>' && inter == "" && final == 'u':
		t.tags["kittyKeyboard"] = true
		t.kittyDepth[t.screenIdx()]++
	case private == '<' && inter == "" && final == 'u':
		t.tags["kittyKeyboard"] = true
		if t.kittyDepth[t.screenIdx()] == 0 {
			t.kittyUnderflow = true
		} else {
			t.kittyDepth[t.screenIdx()]--
		}
	case final == 'c' || final == 'n' || final == 't' || final == 'p' || final == 'q' || final == 'S' || final == 'u':
		// queries: no display effect
	default:
		t.fail("CSI outside the vocabulary: " + string([]byte{final}))
	}
}

func (t *refTerm) screenIdx() int {
	if t.altScreen {
		return 1
	}
	return 0
}

func (t *refTerm) osc(payload string) {
	// split selector
	sel := payload
	rest := ""
	for i := 0; i < len(payload); i++ {
		if payload[i] == ';' {
			sel, rest = payload[:i], payload[i+1:]
			break
		}
	}
	switch sel {
	case "8":
		params, uri := rest, ""
		for i := 0; i < len(rest); i++ {
			if rest[i] == ';' {
				params, uri = rest[:i], rest[i+1:]
				break
			}
		}
		t.pen.Hyperlink, t.pen.HyperlinkParams = uri, params
		if uri == "" {
			t.pen.HyperlinkParams = ""
		}
	case "22":
		t.pointer = rest
	case "176":
		t.tags["osc176"] = true
		if rest != "?" {
			t.appID = rest
		}
	case "66":
		t.tags["explicitWidth"] = true
		// w=n;text
		w := 0
		text := ""
		for i := 0; i < len(rest); i++ {
			if rest[i] == ';' {
				text = rest[i+1:]
				if i >= 3 && rest[:2] == "w=" {
					w = int(rest[2] - '0')
				}
				break
			}
		}
		t.put(text, w)
	case "2", "9", "777", "52", "4", "10", "11":
	default:
		t.fail("OSC outside the vocabulary")
	}
}

// feed interprets the bytes written to the terminal.
func (t *refTerm) feed(b []byte) {
	i := 0
	n := len(b)
	for i < n {
		c := b[i]
		switch {
		case c == 0:
			t.nuls++
			i++
		case c == 0x1B:
			if i+1 >= n {
				t.fail("truncated escape")
				return
			}
			switch b[i+1] {
			case '[':
				j := i + 2
				private := byte(0)
				if j < n && (b[j] == '?' || b[j] == '>' || b[j] == '<' || b[j] == '=') {
					private = b[j]
					j++
				}
				ps := j
				for j < n && (b[j] >= '0' && b[j] <= '9' || b[j] == ';' || b[j] == ':') {
					j++
				}
				params := string(b[ps:j])
				is := j
				for j < n && b[j] >= 0x20 && b[j] <= 0x2F {
					j++
				}
				inter := string(b[is:j])
				if j >= n {
					t.fail("truncated CSI")
					return
				}
				t.csi(private, params, inter, b[j])
				i = j + 1
			case ']', 'P', '_':
				j := i + 2
				for j < n && b[j] != 0x07 && !(b[j] == 0x1B && j+1 < n && b[j+1] == '\\') {
					j++
				}
				if j >= n {
					t.fail("unterminated string")
					return
				}
				if b[i+1] == ']' {
					t.osc(string(b[i+2 : j]))
				}
				if b[j] == 0x07 {
					i = j + 1
				} else {
					i = j + 2
				}
			case '=':
				t.keypadApp = 1
				i += 2
			case '>':
				t.keypadApp = 0
				i += 2
			default:
				t.fail("ESC sequence outside the vocabulary")
				i += 2
			}
		case c < 0x20:
			t.fail("C0 control in render output")
			i++
		default:
			// one grapheme of the alphabet: a base rune plus following U+0301
			r, sz := rtDecode(b[i:])
			g := string(r)
			j := i + sz
			for j < n {
				r2, sz2 := rtDecode(b[j:])
				if r2 != 0x0301 {
					break
				}
				g += string(r2)
				j += sz2
			}
			if r == 0x0301 {
				// a lone combining mark: attaches to whatever precedes the cursor
				t.fail("lone combining mark printed")
			}
			t.put(g, rtWidth(string(r)))
			i = j
		}
	}
}

func rtDecode(b []byte) (rune, int) {
	c := b[0]
	switch {
	case c < 0x80:
		return rune(c), 1
	case c >= 0xC2 && c <= 0xDF && len(b) >= 2:
		return rune(c&0x1F)<<6 | rune(b[1]&0x3F), 2
	case c >= 0xE0 && c <= 0xEF && len(b) >= 3:
		return rune(c&0x0F)<<12 | rune(b[1]&0x3F)<<6 | rune(b[2]&0x3F), 3
	case c >= 0xF0 && len(b) >= 4:
		return rune(c&0x07)<<18 | rune(b[1]&0x3F)<<12 | rune(b[2]&0x3F)<<6 | rune(b[3]&0x3F), 4
	}
	return rune(c), 1
}

// ---------------------------------------------------------------------------------------
// fake console
// ---------------------------------------------------------------------------------------

type verifConsole struct {
	log  []byte
	w, h int // reported window size (0: 4x3)
}

func (c *verifConsole) Read(p []byte) (int, error)       { return 0, nil }
func (c *verifConsole) Write(p []byte) (int, error)      { c.log = append(c.log, p...); return len(p), nil }
func (c *verifConsole) Close() error                     { return nil }
func (c *verifConsole) Fd() uintptr                      { return 0 }
func (c *verifConsole) Name() string                     { return "verif" }
func (c *verifConsole) Resize(console.WinSize) error     { return nil }
func (c *verifConsole) ResizeFrom(console.Console) error { return nil }
func (c *verifConsole) SetRaw() error                    { return nil }
func (c *verifConsole) DisableEcho() error               { return nil }
func (c *verifConsole) Reset() error                     { return nil }
func (c *verifConsole) Size() (console.WinSize, error) {
	if c.w > 0 {
		return console.WinSize{Height: uint16(c.h), Width: uint16(c.w)}, nil
	}
	return console.WinSize{Height: 3, Width: 4}, nil
}

func (c *verifConsole) take() []byte {
	b := c.log
	c.log = nil
	return b
}
