package vaxis

import (
	"git.sr.ht/~rockorager/vaxis/ansi"
	"git.sr.ht/~rockorager/vaxis/zzverif"
)

// verifInputVaxis builds a Vaxis as New() does for the input side, without console or goroutines.
func verifInputVaxis() *Vaxis {
	vx := verifBareVaxis(4, 3)
	vx.queue = make(chan Event, 64)
	vx.chClipboard = make(chan string)
	vx.chCursorPos = make(chan [2]int)
	vx.chQuit = make(chan bool)
	vx.chSizeDone = make(chan bool, 1)
	vx.chFg = make(chan string, 1)
	vx.chBg = make(chan string, 1)
	vx.chColor = make(chan string, 1)
	return vx
}

func verifSymCaps(vx *Vaxis) {
	vx.caps.reportSizeChars = zzverif.Bool("cap.sizeChars")
	vx.caps.reportSizePixels = zzverif.Bool("cap.sizePixels")
	vx.caps.inBandResize = zzverif.Bool("cap.inBandResize")
	vx.caps.osc4 = zzverif.Bool("cap.osc4")
	vx.caps.osc10 = zzverif.Bool("cap.osc10")
	vx.caps.osc11 = zzverif.Bool("cap.osc11")
	vx.caps.kittyKeyboard = zzverif.Bool("cap.kitty")
	vx.pastePending = zzverif.Bool("pastePending")
}

// verifSymCSI returns a CSI sequence of symbolic shape and content, as the parser can
// deliver it: final 0x40-0x7E, 0-2 intermediates from 0x20-0x2F / 0x3C-0x3F, 0-5 parameters
// each with at least one sub-parameter (C02 proves that guarantee), values free.
func verifSymCSI(mouse bool) (seq ansi.CSI, ni, np int) {
	final := rune(zzverif.Byte("final"))
	zzverif.Assume(final >= 0x40 && final <= 0x7E)
	if mouse {
		zzverif.Assume(final == 'M' || final == 'm')
	} else {
		zzverif.Assume(final != 'M' && final != 'm')
	}
	seq.Final = final
	ni = zzverif.Choose("ni", 3)
	if ni > 0 {
		seq.Intermediate = make([]rune, ni)
		for i := range seq.Intermediate {
			r := rune(zzverif.Byte("inter"))
			zzverif.Assume((r >= 0x20 && r <= 0x2F) || (r >= 0x3C && r <= 0x3F))
			seq.Intermediate[i] = r
		}
	}
	np = zzverif.Choose("np", 6)
	if np > 0 {
		seq.Parameters = make([][]int, np)
		for i := range seq.Parameters {
			ns := 1
			if i == 0 {
				ns = 1 + zzverif.Choose("nsub0", 3)
			} else if i == 1 {
				ns = 1 + zzverif.Choose("nsub1", 2)
			} else if i == 2 {
				ns = 1 + zzverif.Choose("nsub2", 2)
			}
			seq.Parameters[i] = make([]int, ns)
			for j := range seq.Parameters[i] {
				if mouse {
					seq.Parameters[i][j] = zzverif.Int("p")
				} else {
					// 8-bit parameter values keep the unicode class tables of decodeKey small
					seq.Parameters[i][j] = int(zzverif.Byte("p"))
				}
			}
		}
	}
	return
}

// VerifC03CSI: handleSequence on an arbitrary CSI sequence other than M/m (parameter
// values 0..255): no panic, no blocked send.
func VerifC03CSI() { verifC03CSI(false) }

// VerifC03Mouse: handleSequence on CSI M / CSI m of arbitrary shape with free 64-bit
// parameters: SGR mouse reports decode exactly; without the '<' marker no mouse event.
func VerifC03Mouse() { verifC03CSI(true) }

func verifC03CSI(mouse bool) {
	vx := verifInputVaxis()
	verifSymCaps(vx)
	seq, ni, np := verifSymCSI(mouse)
	if zzverif.Bool("reqCursorPos") {
		// a cursor position request is outstanding: its requester is waiting
		atomicStore(&vx.reqCursorPos, true)
		go func() { <-vx.chCursorPos }()
	}
	vx.handleSequence(seq)
	isMouseFinal := seq.Final == 'M' || seq.Final == 'm'
	sgr := isMouseFinal && ni == 1 && seq.Intermediate[0] == '<' && np == 3
	nMouse := 0
	var got Mouse
	for len(vx.queue) > 0 {
		ev := <-vx.queue
		if m, ok := ev.(Mouse); ok {
			nMouse++
			got = m
		}
	}
	if isMouseFinal {
		zzverif.Reach("mouse-final")
		if sgr {
			zzverif.Reach("sgr-mouse")
			p0 := seq.Parameters[0][0]
			wantType := EventPress
			if seq.Final == 'm' {
				wantType = EventRelease
			}
			if p0&32 != 0 {
				wantType = EventMotion
			}
			var mods ModifierMask
			if p0&4 != 0 {
				mods |= ModShift
			}
			if p0&8 != 0 {
				mods |= ModAlt
			}
			if p0&16 != 0 {
				mods |= ModCtrl
			}
			zzverif.Assert(nMouse == 1, "sgr-mouse-yields-one-event")
			zzverif.Assert(got.Button == MouseButton(p0&0xC3), "mouse-button")
			zzverif.Assert(got.EventType == wantType, "mouse-event-type")
			zzverif.Assert(got.Modifiers == mods, "mouse-modifiers")
			zzverif.Assert(got.Col == seq.Parameters[1][0]-1 && got.Row == seq.Parameters[2][0]-1, "mouse-position")
		} else {
			zzverif.Assert(nMouse == 0, "non-sgr-mouse-is-no-mouse-event")
		}
	}
	zzverif.Reach("end")
}

var verifReplies = []ansi.Sequence{
	ansi.CSI{Final: 't', Parameters: [][]int{{8}, {24}, {80}}},
	ansi.CSI{Final: 't', Parameters: [][]int{{4}, {600}, {800}}},
	ansi.CSI{Final: 't', Parameters: [][]int{{48}, {24}, {80}, {600}, {800}}},
	ansi.CSI{Final: 'R', Parameters: [][]int{{1}, {1}}},
	ansi.CSI{Final: 'c', Intermediate: []rune{'?'}, Parameters: [][]int{{62}, {4}}},
	ansi.CSI{Final: 'y', Intermediate: []rune{'?', '$'}, Parameters: [][]int{{2026}, {2}}},
	ansi.CSI{Final: 'y', Intermediate: []rune{'?', '$'}, Parameters: [][]int{{2027}}},
	ansi.CSI{Final: 'n', Intermediate: []rune{'?'}, Parameters: [][]int{{997}, {1}}},
	ansi.CSI{Final: 'u', Intermediate: []rune{'?'}, Parameters: [][]int{{1}}},
	ansi.CSI{Final: 'S', Intermediate: []rune{'?'}, Parameters: [][]int{{2}, {0}, {100}}},
	ansi.OSC{Payload: []rune("4;1;rgb:00/00/00")},
	ansi.OSC{Payload: []rune("10;rgb:00/00/00")},
	ansi.OSC{Payload: []rune("11;rgb:00/00/00")},
	ansi.OSC{Payload: []rune("52;c;aGk=")},
	ansi.OSC{Payload: []rune("52;c")},
	ansi.OSC{Payload: []rune("176;app")},
	ansi.OSC{Payload: []rune("176")},
	ansi.DCS{Final: 'r', Intermediate: []rune{'+'}, Parameters: []int{1}, Data: []rune("536D756C78=1")},
	ansi.DCS{Final: 'r', Intermediate: []rune{'+'}, Parameters: []int{1}, Data: []rune("524742")},
	ansi.DCS{Final: 'r', Intermediate: []rune{'+'}, Parameters: []int{0}, Data: []rune("")},
	ansi.DCS{Final: 'r', Intermediate: []rune{'$'}, Parameters: []int{1}, Data: []rune("2 q")},
	ansi.DCS{Final: 'r', Intermediate: []rune{'$'}, Parameters: []int{1}, Data: []rune(" q")},
	ansi.DCS{Final: 'r'},
	ansi.DCS{Final: '|', Intermediate: []rune{'>'}, Data: []rune("foot")},
	ansi.DCS{Final: '|', Intermediate: []rune{'!'}, Data: []rune("7E565445")},
	ansi.DCS{Final: '|'},
	ansi.APC{Data: "Gi=1;OK"},
	ansi.APC{Data: ""},
}

// VerifC03Replies: query replies arriving unsolicited and repeated (nobody is waiting for
// them): k replies chosen freely from the table; the input loop must not block or panic.
func VerifC03Replies() {
	vx := verifInputVaxis()
	verifSymCaps(vx)
	k := zzverif.Param("k")
	for i := 0; i < k; i++ {
		r := zzverif.Choose("reply", len(verifReplies))
		vx.handleSequence(verifReplies[r])
	}
	zzverif.Reach("end")
}

// VerifC03Keys: a stream of k items, each a legacy key (Print of one ASCII byte, C0, ESC x,
// SS3 x) or a paste bracket (CSI 200~ / 201~): every key yields exactly one Key event in
// order, marked EventPaste iff inside brackets; every bracket yields its boundary event.
func VerifC03Keys() {
	vx := verifInputVaxis()
	k := zzverif.Param("k")
	inPaste := false
	for i := 0; i < k; i++ {
		b := zzverif.Byte("b")
		kind := zzverif.Choose("kind", 7)
		var seq ansi.Sequence
		switch kind {
		case 0:
			zzverif.Assume(b >= 0x20 && b < 0x7F)
			seq = ansi.Print{Grapheme: string([]byte{b}), Width: 1}
		case 1:
			zzverif.Assume(b < 0x20)
			seq = ansi.C0(b)
		case 2:
			zzverif.Assume(b >= 0x20 && b < 0x7F)
			seq = ansi.ESC{Final: rune(b)}
		case 3:
			zzverif.Assume(b >= 0x40 && b < 0x7F)
			seq = ansi.SS3(b)
		case 6: // a CSI-encoded key with an explicit kitty event type (press / repeat / release)
			zzverif.Assume(b >= 'a' && b <= 'z')
			seq = ansi.CSI{Final: 'u', Parameters: [][]int{{int(b)}, {1, 1 + zzverif.Choose("evtype", 3)}}}
		case 4:
			seq = ansi.CSI{Final: '~', Parameters: [][]int{{200}}}
		case 5:
			seq = ansi.CSI{Final: '~', Parameters: [][]int{{201}}}
		}
		vx.handleSequence(seq)
		zzverif.Assert(len(vx.queue) == 1, "one-event-per-item")
		ev := <-vx.queue
		switch kind {
		case 4:
			_, ok := ev.(PasteStartEvent)
			zzverif.Assert(ok, "paste-start-event")
			inPaste = true
		case 5:
			_, ok := ev.(PasteEndEvent)
			zzverif.Assert(ok, "paste-end-event")
			inPaste = false
		default:
			key, ok := ev.(Key)
			zzverif.Assert(ok, "key-event")
			zzverif.Assert((key.EventType == EventPaste) == inPaste, "pasted-iff-inside-brackets")
			if kind == 0 {
				zzverif.Assert(key.Text == string([]byte{b}), "print-text-preserved")
			}
		}
	}
	zzverif.Reach("end")
}
