package vaxis

import (
	"time"

	"git.sr.ht/~rockorager/vaxis/ansi"
	"git.sr.ht/~rockorager/vaxis/zzverif"
)

// verifInputVaxis builds a Vaxis as New() does for the input side, without console or goroutines.
func verifInputVaxis() *Vaxis {
	vx := verifBareVaxis(4, 3)
	vx.queue = make(chan Event, 64)
	vx.chClipboard = make(chan string)
	vx.chCursorPos = make(chan [2]int)
	vx.chQuit = make(chan bool)
	vx.chSizeDone = make(chan bool, 1)
	vx.chFg = make(chan string, 1)
	vx.chBg = make(chan string, 1)
	vx.chColor = make(chan string, 1)
	return vx
}

func verifSymCaps(vx *Vaxis) {
	vx.caps.reportSizeChars = zzverif.Bool("cap.sizeChars")
	vx.caps.reportSizePixels = zzverif.Bool("cap.sizePixels")
	vx.caps.inBandResize = zzverif.Bool("cap.inBandResize")
	vx.caps.osc4 = zzverif.Bool("cap.osc4")
	vx.caps.osc10 = zzverif.Bool("cap.osc10")
	vx.caps.osc11 = zzverif.Bool("cap.osc11")
	vx.caps.kittyKeyboard = zzverif.Bool("cap.kitty")
	vx.pastePending = zzverif.Bool("pastePending")
}

// verifSymCSI returns a CSI sequence of symbolic shape and content, as the parser can
// deliver it: final 0x40-0x7E, 0-2 intermediates from 0x20-0x2F / 0x3C-0x3F, 0-5 parameters
// each with at least one sub-parameter (C02 proves that guarantee), values free.
func verifSymCSI(mouse bool) (seq ansi.CSI, ni, np int) {
	final := rune(zzverif.Byte("final"))
	zzverif.Assume(final >= 0x40 && final <= 0x7E)
	if mouse {
		zzverif.Assume(final == 'M' || final == 'm')
	} else {
		zzverif.Assume(final != 'M' && final != 'm')
	}
	seq.Final = final
	ni = zzverif.Choose("ni", 3)
	if ni > 0 {
		seq.Intermediate = make([]rune, ni)
		for i := range seq.Intermediate {
			r := rune(zzverif.Byte("inter"))
			zzverif.Assume((r >= 0x20 && r <= 0x2F) || (r >= 0x3C && r <= 0x3F))
			seq.Intermediate[i] = r
		}
	}
	np = zzverif.Choose("np", 6)
	if np > 0 {
		seq.Parameters = make([][]int, np)
		for i := range seq.Parameters {
			ns := 1
			if i == 0 {
				ns = 1 + zzverif.Choose("nsub0", 3)
			} else if i == 1 {
				ns = 1 + zzverif.Choose("nsub1", 2)
			} else if i == 2 {
				ns = 1 + zzverif.Choose("nsub2", 2)
			}
			seq.Parameters[i] = make([]int, ns)
			for j := range seq.Parameters[i] {
				if mouse {
					seq.Parameters[i][j] = zzverif.Int("p")
				} else {
					// 8-bit parameter values keep the unicode class tables of decodeKey small
					seq.Parameters[i][j] = int(zzverif.Byte("p"))
				}
			}
		}
	}
	return
}

// VerifC03CSI: handleSequence on an arbitrary CSI sequence other than M/m (parameter
// values 0..255): no panic, no blocked send.
func VerifC03CSI() { verifC03CSI(false) }

// VerifC03Mouse: handleSequence on CSI M / CSI m of arbitrary shape with free 64-bit
// parameters: SGR mouse reports decode exactly; without the '<' marker no mouse event.
func VerifC03Mouse() { verifC03CSI(true) }

func verifC03CSI(mouse bool) {
	vx := verifInputVaxis()
	verifSymCaps(vx)
	seq, ni, np := verifSymCSI(mouse)
	if zzverif.Bool("reqCursorPos") {
		// a cursor position request is outstanding: its requester is waiting
		atomicStore(&vx.reqCursorPos, true)
		go func() { <-vx.chCursorPos }()
	}
	vx.handleSequence(seq)
	isMouseFinal := seq.Final == 'M' || seq.Final == 'm'
	sgr := isMouseFinal && ni == 1 && seq.Intermediate[0] == '<' && np == 3
	nMouse := 0
	var got Mouse
	for len(vx.queue) > 0 {
		ev := <-vx.queue
		if m, ok := ev.(Mouse); ok {
			nMouse++
			got = m
		}
	}
	if isMouseFinal {
		zzverif.Reach("mouse-final")
		if sgr {
			zzverif.Reach("sgr-mouse")
			p0 := seq.Parameters[0][0]
			wantType := EventPress
			if seq.Final == 'm' {
				wantType = EventRelease
			}
			if p0&32 != 0 {
				wantType = EventMotion
			}
			var mods ModifierMask
			if p0&4 != 0 {
				mods |= ModShift
			}
			if p0&8 != 0 {
				mods |= ModAlt
			}
			if p0&16 != 0 {
				mods |= ModCtrl
			}
			zzverif.Assert(nMouse == 1, "sgr-mouse-yields-one-event")
			zzverif.Assert(got.Button == MouseButton(p0&0xC3), "mouse-button")
			zzverif.Assert(got.EventType == wantType, "mouse-event-type")
			zzverif.Assert(got.Modifiers == mods, "mouse-modifiers")
			zzverif.Assert(got.Col == seq.Parameters[1][0]-1 && got.Row == seq.Parameters[2][0]-1, "mouse-position")
		} else {
			zzverif.Assert(nMouse == 0, "non-sgr-mouse-is-no-mouse-event")
		}
	}
	zzverif.Reach("end")
}

var verifReplies = []ansi.Sequence{
	ansi.CSI{Final: 't', Parameters: [][]int{{8}, {24}, {80}}},
	ansi.CSI{Final: 't', Parameters: [][]int{{4}, {600}, {800}}},
	ansi.CSI{Final: 't', Parameters: [][]int{{48}, {24}, {80}, {600}, {800}}},
	ansi.CSI{Final: 'R', Parameters: [][]int{{1}, {1}}},
	ansi.CSI{Final: 'c', Intermediate: []rune{'?'}, Parameters: [][]int{{62}, {4}}},
	ansi.CSI{Final: 'y', Intermediate: []rune{'?', '$'}, Parameters: [][]int{{2026}, {2}}},
	ansi.CSI{Final: 'y', Intermediate: []rune{'?', '$'}, Parameters: [][]int{{2027}}},
	ansi.CSI{Final: 'n', Intermediate: []rune{'?'}, Parameters: [][]int{{997}, {1}}},
	ansi.CSI{Final: 'u', Intermediate: []rune{'?'}, Parameters: [][]int{{1}}},
	ansi.CSI{Final: 'S', Intermediate: []rune{'?'}, Parameters: [][]int{{2}, {0}, {100}}},
	ansi.OSC{Payload: []rune("4;1;rgb:00/00/00")},
	ansi.OSC{Payload: []rune("10;rgb:00/00/00")},
	ansi.OSC{Payload: []rune("11;rgb:00/00/00")},
	ansi.OSC{Payload: []rune("52;c;aGk=")},
	ansi.OSC{Payload: []rune("52;c")},
	ansi.OSC{Payload: []rune("176;app")},
	ansi.OSC{Payload: []rune("176")},
	ansi.DCS{Final: 'r', Intermediate: []rune{'+'}, Parameters: []int{1}, Data: []rune("536D756C78=1")},
	ansi.DCS{Final: 'r', Intermediate: []rune{'+'}, Parameters: []int{1}, Data: []rune("524742")},
	ansi.DCS{Final: 'r', Intermediate: []rune{'+'}, Parameters: []int{0}, Data: []rune("")},
	ansi.DCS{Final: 'r', Intermediate: []rune{'$'}, Parameters: []int{1}, Data: []rune("2 q")},
	ansi.DCS{Final: 'r', Intermediate: []rune{'$'}, Parameters: []int{1}, Data: []rune(" q")},
	ansi.DCS{Final: 'r'},
	ansi.DCS{Final: '|', Intermediate: []rune{'>'}, Data: []rune("foot")},
	ansi.DCS{Final: '|', Intermediate: []rune{'!'}, Data: []rune("7E565445")},
	ansi.DCS{Final: '|'},
	ansi.APC{Data: "Gi=1;OK"},
	ansi.APC{Data: ""},
}

// VerifC03Replies: query replies arriving unsolicited and repeated (nobody is waiting for
// them): k replies chosen freely from the table; the input loop must not block or panic.
func VerifC03Replies() {
	vx := verifInputVaxis()
	verifSymCaps(vx)
	k := zzverif.Param("k")
	for i := 0; i < k; i++ {
		r := zzverif.Choose("reply", len(verifReplies))
		vx.handleSequence(verifReplies[r])
	}
	zzverif.Reach("end")
}

// VerifC03Keys: a stream of k items, each a legacy key (Print of one ASCII byte, C0, ESC x,
// SS3 x) or a paste bracket (CSI 200~ / 201~): every key yields exactly one Key event in
// order, marked EventPaste iff inside brackets; every bracket yields its boundary event.
func VerifC03Keys() {
	vx := verifInputVaxis()
	k := zzverif.Param("k")
	inPaste := false
	for i := 0; i < k; i++ {
		b := zzverif.Byte("b")
		kind := zzverif.Choose("kind", 7)
		var seq ansi.Sequence
		switch kind {
		case 0:
			zzverif.Assume(b >= 0x20 && b < 0x7F)
			seq = ansi.Print{Grapheme: string([]byte{b}), Width: 1}
		case 1:
			zzverif.Assume(b < 0x20)
			seq = ansi.C0(b)
		case 2:
			zzverif.Assume(b >= 0x20 && b < 0x7F)
			seq = ansi.ESC{Final: rune(b)}
		case 3:
			zzverif.Assume(b >= 0x40 && b < 0x7F)
			seq = ansi.SS3(b)
		case 6: // a CSI-encoded key with an explicit kitty event type (press / repeat / release)
			zzverif.Assume(b >= 'a' && b <= 'z')
			seq = ansi.CSI{Final: 'u', Parameters: [][]int{{int(b)}, {1, 1 + zzverif.Choose("evtype", 3)}}}
		case 4:
			seq = ansi.CSI{Final: '~', Parameters: [][]int{{200}}}
		case 5:
			seq = ansi.CSI{Final: '~', Parameters: [][]int{{201}}}
		}
		vx.handleSequence(seq)
		zzverif.Assert(len(vx.queue) == 1, "one-event-per-item")
		ev := <-vx.queue
		switch kind {
		case 4:
			_, ok := ev.(PasteStartEvent)
			zzverif.Assert(ok, "paste-start-event")
			inPaste = true
		case 5:
			_, ok := ev.(PasteEndEvent)
			zzverif.Assert(ok, "paste-end-event")
			inPaste = false
		default:
			key, ok := ev.(Key)
			zzverif.Assert(ok, "key-event")
			zzverif.Assert((key.EventType == EventPaste) == inPaste, "pasted-iff-inside-brackets")
			if kind == 0 {
				zzverif.Assert(key.Text == string([]byte{b}), "print-text-preserved")
			}
		}
	}
	zzverif.Reach("end")
}

// VerifC03Backpressure: user input is never lost when the application is slow: the event
// queue (capacity 1 here) is full when the sequence arrives and a consumer goroutine drains it
// only while the input side waits: the key / mouse / focus / paste event is still delivered,
// after the event that was queued before it.
func VerifC03Backpressure() {
	vx := verifInputVaxis()
	vx.queue = make(chan Event, 1)
	vx.queue <- Redraw{}
	// the consumer takes the queued event only after a delay (a timer; under the engine's
	// virtual time it fires when every goroutine is blocked), i.e. while the input side is
	// already waiting to post
	var first Event
	gate, done := make(chan bool), make(chan bool)
	time.AfterFunc(20*time.Millisecond, func() { close(gate) })
	go func() {
		<-gate
		first = <-vx.queue
		close(done)
	}()
	b := zzverif.Byte("b")
	kind := zzverif.Choose("kind", 10)
	var seq ansi.Sequence
	switch kind {
	case 0:
		zzverif.Assume(b >= 0x20 && b < 0x7F)
		seq = ansi.Print{Grapheme: string([]byte{b}), Width: 1}
	case 1:
		zzverif.Assume(b < 0x20)
		seq = ansi.C0(b)
	case 2:
		zzverif.Assume(b >= 0x20 && b < 0x7F)
		seq = ansi.ESC{Final: rune(b)}
	case 3:
		zzverif.Assume(b >= 0x40 && b < 0x7F)
		seq = ansi.SS3(b)
	case 4:
		zzverif.Assume(b >= 'a' && b <= 'z')
		seq = ansi.CSI{Final: 'u', Parameters: [][]int{{int(b)}, {1, 1 + zzverif.Choose("evtype", 3)}}}
	case 5:
		seq = ansi.CSI{Final: '~', Parameters: [][]int{{200}}}
	case 6:
		seq = ansi.CSI{Final: '~', Parameters: [][]int{{201}}}
	case 7: // SGR mouse press / release
		final := 'M'
		if zzverif.Bool("release") {
			final = 'm'
		}
		// button, motion flag (32) and column free
		seq = ansi.CSI{Final: final, Intermediate: []rune{'<'}, Parameters: [][]int{{int(b & 35)}, {1 + int(b>>6)}, {1}}}
	case 8:
		seq = ansi.CSI{Final: 'I'}
	case 9:
		seq = ansi.CSI{Final: 'O'}
	}
	vx.handleSequence(seq)
	<-done
	all := []Event{first}
	for len(vx.queue) > 0 {
		all = append(all, <-vx.queue)
	}
	zzverif.Assert(len(all) == 2, "input-event-not-lost-when-the-queue-is-full")
	if len(all) == 2 {
		_, first := all[0].(Redraw)
		ok := false
		switch kind {
		case 5:
			_, ok = all[1].(PasteStartEvent)
		case 6:
			_, ok = all[1].(PasteEndEvent)
		case 7:
			_, ok = all[1].(Mouse)
		case 8:
			_, ok = all[1].(FocusIn)
		case 9:
			_, ok = all[1].(FocusOut)
		default:
			_, ok = all[1].(Key)
		}
		zzverif.Assert(first && ok, "events-delivered-in-order")
	}
	zzverif.Reach("end")
}

// verifDrain empties the event queue.
func verifDrain(vx *Vaxis) (evs []Event) {
	for len(vx.queue) > 0 {
		evs = append(evs, <-vx.queue)
	}
	return
}

// VerifC03Answers: a reply to one of Vaxis's own queries updates exactly the capability or
// answer it reports: the colour replies reach exactly their own answer channel (when that
// query is known to be supported) and announce exactly their own capability; a mode report
// announces its mode exactly when the terminal reports it as set or reset (DECRPM 1 / 2; 0
// = not recognised, 3 / 4 = permanently set / reset, i.e. not controllable); device
// attributes announce sixel exactly when attribute 4 is listed; cursor position, clipboard,
// colour-scheme, cursor-style and size reports carry their values.
func VerifC03Answers() {
	vx := verifInputVaxis()
	verifSymCaps(vx)
	vx.pastePending = false
	switch zzverif.Choose("reply", 9) {
	case 0: // OSC 4 / 10 / 11
		which := zzverif.Choose("osc", 3)
		payload := []string{"4;1;rgb:00/00/00", "10;rgb:00/00/00", "11;rgb:00/00/00"}[which]
		vx.handleSequence(ansi.OSC{Payload: []rune(payload)})
		chans := []chan string{vx.chColor, vx.chFg, vx.chBg}
		known := []bool{vx.caps.osc4, vx.caps.osc10, vx.caps.osc11}
		ok := true
		for i, ch := range chans {
			if i == which && known[i] {
				ok = ok && len(ch) == 1 && <-ch == payload
			} else {
				ok = ok && len(ch) == 0
			}
		}
		zzverif.Assert(ok, "colour-reply-reaches-exactly-its-own-answer-channel")
		evs := verifDrain(vx)
		one := len(evs) == 1
		if one {
			switch which {
			case 0:
				_, one = evs[0].(capabilityOsc4)
			case 1:
				_, one = evs[0].(capabilityOsc10)
			case 2:
				_, one = evs[0].(capabilityOsc11)
			}
		}
		zzverif.Assert(one, "colour-reply-announces-exactly-its-own-capability")
	case 1: // DECRPM
		mode := []int{2026, 2027, 2031, 2004, 1016}[zzverif.Choose("mode", 5)]
		status := int(zzverif.Byte("status"))
		vx.handleSequence(ansi.CSI{Final: 'y', Intermediate: []rune{'?', '$'}, Parameters: [][]int{{mode}, {status}}})
		evs := verifDrain(vx)
		supported := status == 1 || status == 2
		ok := len(evs) == 0
		if supported && mode >= 2026 {
			ok = len(evs) == 1
			if ok {
				switch mode {
				case 2026:
					_, ok = evs[0].(synchronizedUpdates)
				case 2027:
					_, ok = evs[0].(unicodeCoreCap)
				case 2031:
					_, ok = evs[0].(notifyColorChange)
				}
			}
		}
		zzverif.Assert(ok, "mode-report-announces-its-mode-iff-set-or-reset")
	case 2: // DA1
		n := zzverif.Choose("nattr", 4)
		var params [][]int
		has4 := false
		for i := 0; i < n; i++ {
			a := int(zzverif.Byte("attr"))
			params = append(params, []int{a})
			has4 = has4 || a == 4
		}
		vx.handleSequence(ansi.CSI{Final: 'c', Intermediate: []rune{'?'}, Parameters: params})
		evs := verifDrain(vx)
		sixel, da1, other := 0, 0, 0
		for i, e := range evs {
			switch e.(type) {
			case capabilitySixel:
				sixel++
			case primaryDeviceAttribute:
				da1++
				if i != len(evs)-1 {
					other++ // the end-of-replies marker must come last
				}
			default:
				other++
			}
		}
		zzverif.Assert((sixel > 0) == has4 && da1 == 1 && other == 0, "device-attributes-announce-sixel-iff-listed-then-the-marker")
	case 3: // cursor position report with a requester waiting
		r, c := int(zzverif.Byte("r")), int(zzverif.Byte("c"))
		atomicStore(&vx.reqCursorPos, true)
		var got [2]int
		done := make(chan bool)
		go func() { got = <-vx.chCursorPos; close(done) }()
		vx.handleSequence(ansi.CSI{Final: 'R', Parameters: [][]int{{r}, {c}}})
		<-done
		zzverif.Assert(got == [2]int{r, c} && !atomicLoad(&vx.reqCursorPos) && len(vx.queue) == 0, "cursor-position-report-answers-the-request-only")
	case 4: // clipboard with a requester waiting
		var got string
		done := make(chan bool)
		go func() { got = <-vx.chClipboard; close(done) }()
		vx.handleSequence(ansi.OSC{Payload: []rune("52;c;aGk=")})
		<-done
		zzverif.Assert(got == "hi" && len(vx.queue) == 0, "clipboard-reply-decoded")
	case 5: // colour scheme report
		m := int(zzverif.Byte("scheme"))
		vx.handleSequence(ansi.CSI{Final: 'n', Intermediate: []rune{'?'}, Parameters: [][]int{{997}, {m}}})
		evs := verifDrain(vx)
		ok := len(evs) == 1
		if ok {
			u, is := evs[0].(ColorThemeUpdate)
			ok = is && int(u.Mode) == m
		}
		zzverif.Assert(ok, "colour-scheme-report-carries-its-mode")
	case 6: // DECRQSS cursor style
		d := zzverif.Byte("style")
		zzverif.Assume(d >= 0x20 && d < 0x7F)
		before := vx.userCursorStyle
		vx.handleSequence(ansi.DCS{Final: 'r', Intermediate: []rune{'$'}, Parameters: []int{1}, Data: []rune{rune(d), ' ', 'q'}})
		want := before
		if d >= '0' && d <= '6' {
			want = CursorStyle(d - '0')
		}
		zzverif.Assert(vx.userCursorStyle == want && len(vx.queue) == 0, "cursor-style-report-sets-the-user-style")
	case 7: // XTGETTCAP
		valid := zzverif.Bool("valid")
		which := zzverif.Choose("cap", 3)
		data := []string{"524742", "536D756C78=1", "544E=78"}[which] // RGB, Smulx=1, TN=x
		p := 0
		if valid {
			p = 1
		}
		vx.handleSequence(ansi.DCS{Final: 'r', Intermediate: []rune{'+'}, Parameters: []int{p}, Data: []rune(data)})
		evs := verifDrain(vx)
		ok := len(evs) == 0
		if valid && which < 2 {
			ok = len(evs) == 1
			if ok && which == 0 {
				_, ok = evs[0].(truecolor)
			} else if ok {
				_, ok = evs[0].(styledUnderlines)
			}
		}
		zzverif.Assert(ok, "termcap-reply-announces-exactly-its-capability-when-valid")
	case 8: // text area size in cells / pixels
		h, w := int(zzverif.Byte("h")), int(zzverif.Byte("w"))
		pix := zzverif.Bool("pixels")
		typ := 8
		if pix {
			typ = 4
		}
		before := vx.nextSize
		vx.handleSequence(ansi.CSI{Final: 't', Parameters: [][]int{{typ}, {h}, {w}}})
		want := before
		if pix {
			want.XPixel, want.YPixel = w, h
		} else {
			want.Cols, want.Rows = w, h
		}
		zzverif.Assert(vx.nextSize == want, "size-report-updates-exactly-its-dimensions")
		// the first report of a kind announces that capability (and nothing else); a later
		// one of the cell size completes the pending size request
		knownChars, knownPix := vx.caps.reportSizeChars, vx.caps.reportSizePixels
		evs := verifDrain(vx)
		okEv := len(evs) == 0
		if pix && !knownPix {
			okEv = len(evs) == 1
			if okEv {
				_, okEv = evs[0].(textAreaPix)
			}
		}
		if !pix && !knownChars {
			okEv = len(evs) == 1
			if okEv {
				_, okEv = evs[0].(textAreaChar)
			}
		}
		zzverif.Assert(okEv, "size-report-announces-exactly-its-own-capability-once")
		wantDone := 0
		if !pix && knownChars {
			wantDone = 1
		}
		zzverif.Assert(len(vx.chSizeDone) == wantDone, "cell-size-report-completes-the-size-request")
	}
	zzverif.Reach("end")
}

// VerifC03Strings: control strings of free content (the kinds replies come in: OSC with the
// prefixes Vaxis listens to, DCS + r / $ r / > | / ! |, APC) can neither crash nor wedge
// the input side, whatever follows the prefix: 0-4 free bytes, capability flags free, a
// clipboard requester waiting or not.
func VerifC03Strings() {
	vx := verifInputVaxis()
	verifSymCaps(vx)
	n := zzverif.Choose("len", 5)
	tail := make([]rune, n)
	for i := range tail {
		b := zzverif.Byte("c")
		zzverif.Assume(b >= 0x20 && b < 0x7F)
		tail[i] = rune(b)
	}
	if zzverif.Bool("clipboardRequester") {
		go func() { <-vx.chClipboard }()
	}
	var seq ansi.Sequence
	switch zzverif.Choose("kind", 7) {
	case 0:
		pre := []string{"4;", "10;", "11;", "52;", "52;c;", "176;", "66;"}[zzverif.Choose("osc", 7)]
		seq = ansi.OSC{Payload: append([]rune(pre), tail...)}
	case 1:
		seq = ansi.OSC{Payload: tail}
	case 2:
		seq = ansi.DCS{Final: 'r', Intermediate: []rune{'+'}, Parameters: []int{zzverif.Choose("p", 2)}, Data: tail}
	case 3:
		seq = ansi.DCS{Final: 'r', Intermediate: []rune{'$'}, Parameters: []int{1}, Data: tail}
	case 4:
		seq = ansi.DCS{Final: '|', Intermediate: []rune{[]rune{'>', '!'}[zzverif.Choose("i", 2)]}, Data: tail}
	case 5:
		seq = ansi.DCS{Final: rune(zzverif.Byte("final")), Data: tail}
	case 6:
		seq = ansi.APC{Data: string(tail)}
	}
	zzverif.Terminates(3000)
	vx.handleSequence(seq)
	zzverif.Assert(len(vx.queue) <= 1, "at-most-one-event-per-control-string")
	zzverif.Reach("end")
}

// VerifC03LateReply: a cursor position query whose reply does not arrive in time gives up
// (virtual time fires its 50 ms timer); the reply arriving late, or a modified F3 key that
// looks like one, then neither wedges the input side nor is lost: it is decoded as input.
func VerifC03LateReply() {
	vx, _ := verifRenderVaxis(4, 3)
	vx.queue = make(chan Event, 8)
	vx.chCursorPos = make(chan [2]int)
	if zzverif.Bool("truncatedReplyInstead") {
		// a request is outstanding and the terminal answers with a truncated report (one
		// parameter): the request is over, whatever comes next is input again
		atomicStore(&vx.reqCursorPos, true)
		vx.handleSequence(ansi.CSI{Final: 'R', Parameters: [][]int{{5}}})
		for len(vx.queue) > 0 {
			<-vx.queue
		}
	} else {
		row, col := vx.CursorPosition() // nobody answers
		zzverif.Assert(row == -1 && col == -1, "unanswered-query-times-out")
	}
	r, c := int(zzverif.Byte("r")), int(zzverif.Byte("c"))
	zzverif.Terminates(3000)
	vx.handleSequence(ansi.CSI{Final: 'R', Parameters: [][]int{{r}, {c}}})
	// not swallowed as an answer nobody waits for, and the loop goes on
	zzverif.Assert(len(vx.queue) == 1, "late-reply-is-delivered-as-input")
	vx.handleSequence(ansi.Print{Grapheme: "x", Width: 1})
	zzverif.Assert(len(vx.queue) == 2, "input-loop-continues-after-a-late-reply")
	zzverif.Reach("end")
}

// VerifC03SizeReplies: window-size reports (CSI Ps ; ... t) of any kind (Ps free) with 0-6
// parameters of free values, complete, truncated or over-long: handleSequence neither
// panics nor blocks, whatever the capability flags.
func VerifC03SizeReplies() {
	vx := verifInputVaxis()
	verifSymCaps(vx)
	np := zzverif.Choose("np", 7)
	params := make([][]int, np)
	for i := range params {
		params[i] = []int{int(zzverif.Byte("p"))}
	}
	zzverif.Terminates(3000)
	vx.handleSequence(ansi.CSI{Final: 't', Parameters: params})
	zzverif.Assert(len(vx.queue) <= 2, "bounded-number-of-events")
	zzverif.Reach("end")
}
