package vaxis

import (
	"unicode"

	"git.sr.ht/~rockorager/vaxis/ansi"

	"git.sr.ht/~rockorager/vaxis/zzverif"
)

const verifRealMods = ModAlt | ModCtrl | ModSuper | ModHyper | ModMeta

// verifRune returns a free rune built from a variable of `bits` bits (8: Latin-1, 16: BMP,
// 32: any value) so that the unicode class tables in the solver terms stay proportionate.
func verifRune(name string, bits int) rune {
	switch bits {
	case 8:
		return rune(zzverif.Byte(name))
	case 16:
		return rune(zzverif.Uint16(name))
	}
	return zzverif.Rune(name)
}

// VerifC09Matches: soundness of Key.Matches for a free key event and a free binding.
func VerifC09Matches() {
	wide := zzverif.Param("bits")
	var k Key
	k.Keycode = verifRune("keycode", wide)
	k.ShiftedCode = verifRune("shifted", wide)
	k.BaseLayoutCode = verifRune("base", wide)
	k.Modifiers = ModifierMask(zzverif.Uint8("kmods"))
	var textRune rune
	switch zzverif.Choose("text", 3) {
	case 0:
	case 1:
		textRune = verifRune("textrune", wide)
		zzverif.Assume(textRune > 0 && textRune <= unicode.MaxRune && (textRune < 0xD800 || textRune > 0xDFFF))
		k.Text = string(textRune)
	case 2:
		k.Text = "ab"
	}
	key := verifRune("key", wide)
	zzverif.Assume(key >= 0 && key <= unicode.MaxRune && (key < 0xD800 || key > 0xDFFF))
	mods := ModifierMask(zzverif.Uint8("mods"))

	got := k.Matches(key, mods)
	// the binding's modifiers may be passed as several arguments, also overlapping ones:
	// they are combined as a set
	part := ModifierMask(zzverif.Uint8("modsPart")) & mods
	zzverif.Assert(k.Matches(key, mods, part) == got && k.Matches(key, part, mods&^part) == got, "modifier-arguments-combine-as-a-set")

	// (1) a match implies identical Ctrl/Alt/Super/Hyper/Meta
	zzverif.Assert(!got || (k.Modifiers&verifRealMods == mods&verifRealMods), "match-implies-equal-real-modifiers")

	// (2) lock bits never affect matching, on either side
	lockK := ModifierMask(zzverif.Uint8("lockK")) & (ModCapsLock | ModNumLock)
	lockB := ModifierMask(zzverif.Uint8("lockB")) & (ModCapsLock | ModNumLock)
	k2 := k
	k2.Modifiers ^= lockK
	zzverif.Assert(k2.Matches(key, mods^lockB) == got, "locks-do-not-affect-matching")

	// (3) when the shift bits differ, one of the documented forgiveness rules applies
	kShift := k.Modifiers&ModShift != 0
	bShift := mods&ModShift != 0
	if got && kShift != bShift {
		rule3 := k.ShiftedCode == key && !bShift
		rule5 := !unicode.IsLetter(key) && unicode.IsGraphic(key) && (k.Keycode == key || k.ShiftedCode == key)
		rule6 := bShift && unicode.IsLower(key) && textRune != 0 && textRune == unicode.ToUpper(key)
		zzverif.Assert(rule3 || rule5 || rule6, "shift-forgiven-only-as-documented")
	}

	// (4) the chord the user pressed matches its own binding
	zzverif.Assert(k.Matches(k.Keycode, k.Modifiers), "key-matches-own-binding")
	zzverif.Reach("end")
}

// VerifC09OwnBinding: for a pressed chord (printable ASCII key or a named special key, any
// combination of Shift/Alt/Ctrl/Super/Hyper/Meta and lock bits) the canonical description
// String() is a binding that MatchString accepts for that same key event.
func VerifC09OwnBinding() {
	var k Key
	switch zzverif.Choose("kind", 2) {
	case 0:
		// enumerated concretely: the strings built by String() stay concrete
		k.Keycode = rune(0x20 + zzverif.Choose("ascii", 0x7F-0x20))
	case 1:
		k.Keycode = keyNames[zzverif.Choose("named", len(keyNames))].key
	}
	// lock bits are excluded here: a real report with Caps Lock carries the shifted text,
	// which this hand-built event does not (see the decoder-based harness)
	k.Modifiers = ModifierMask(zzverif.Uint8("mods")) & (ModShift | ModAlt | ModCtrl | ModSuper | ModHyper | ModMeta)
	// the description and the binding syntax do not depend on how the key event arose: a
	// press, an auto-repeat and a pasted key describe the same chord (a release is named
	// without its modifiers by design and is excluded)
	k.EventType = []EventType{EventPress, EventRepeat, EventPaste}[zzverif.Choose("eventType", 3)]
	s := k.String()
	zzverif.Assert(k.MatchString(s), "chord-matches-own-string")
	zzverif.Reach("end")
}

// verifKittyU builds the kitty report CSI code[:shifted[:base]] ; mods[:event] ; text u with
// the optional fields present or omitted as requested.
func verifKittyU(code, shifted, base rune, mods, event int, text []rune, haveShifted, haveBase, haveMods, haveEvent bool) ansi.CSI {
	p0 := []int{int(code)}
	if haveShifted || haveBase {
		p0 = append(p0, int(shifted))
	}
	if haveBase {
		p0 = append(p0, int(base))
	}
	params := [][]int{p0}
	if haveMods || haveEvent || len(text) > 0 {
		p1 := []int{mods}
		if haveEvent {
			p1 = append(p1, event)
		}
		params = append(params, p1)
	}
	if len(text) > 0 {
		p2 := make([]int, len(text))
		for i, r := range text {
			p2[i] = int(r)
		}
		params = append(params, p2)
	}
	return ansi.CSI{Final: 'u', Parameters: params}
}

// VerifC09DecodeKitty: CSI u reports of printable keys with any combination of optional
// fields decode exactly as the kitty keyboard protocol specifies (key, shifted and base
// codes, modifiers = field-1, event type = field-1, text = the code points), including the
// library's documented Shift+printable text work-around.
func VerifC09DecodeKitty() {
	code := rune(zzverif.Byte("code"))
	if zzverif.Bool("controlKey") {
		// the C0-coded keys the protocol reports by their own code: Escape, Enter, Tab, Backspace
		code = []rune{27, 13, 9, 127}[zzverif.Choose("control", 4)]
	} else {
		zzverif.Assume(code >= 0x20 && code <= 0x7E)
	}
	shifted := rune(zzverif.Byte("shifted"))
	base := rune(zzverif.Byte("base"))
	modsField := int(zzverif.Byte("mods"))
	zzverif.Assume(modsField >= 1)
	eventField := 1 + zzverif.Choose("event", 3)
	nText := zzverif.Choose("ntext", 3)
	text := make([]rune, nText)
	want := ""
	for i := range text {
		t := rune(zzverif.Byte("text"))
		zzverif.Assume(t >= 0x20 && t <= 0x7E)
		text[i] = t
		want += string(t)
	}
	haveShifted, haveBase := zzverif.Bool("haveShifted"), zzverif.Bool("haveBase")
	haveMods, haveEvent := zzverif.Bool("haveMods"), zzverif.Bool("haveEvent")
	seq := verifKittyU(code, shifted, base, modsField, eventField, text, haveShifted, haveBase, haveMods, haveEvent)
	k := decodeKey(seq)

	wantMods := ModifierMask(0)
	if len(seq.Parameters) > 1 {
		wantMods = ModifierMask(modsField - 1)
	}
	wantEvent := EventPress
	if haveEvent {
		wantEvent = EventType(eventField - 1)
	}
	zzverif.Assert(k.Keycode == code, "kitty-keycode")
	zzverif.Assert(k.ShiftedCode == verifIf(haveShifted || haveBase, shifted), "kitty-shifted-code")
	zzverif.Assert(k.BaseLayoutCode == verifIf(haveBase, base), "kitty-base-layout-code")
	zzverif.Assert(k.Modifiers == wantMods, "kitty-modifiers")
	// the named modifiers are the protocol's bits (kitty keyboard protocol: shift 1, alt 2,
	// ctrl 4, super 8, hyper 16, meta 32, caps lock 64, num lock 128), written as literals
	wire := 0
	if len(seq.Parameters) > 1 {
		wire = modsField - 1
	}
	named := (k.Modifiers&ModShift != 0) == (wire&1 != 0) && (k.Modifiers&ModAlt != 0) == (wire&2 != 0) &&
		(k.Modifiers&ModCtrl != 0) == (wire&4 != 0) && (k.Modifiers&ModSuper != 0) == (wire&8 != 0) &&
		(k.Modifiers&ModHyper != 0) == (wire&16 != 0) && (k.Modifiers&ModMeta != 0) == (wire&32 != 0) &&
		(k.Modifiers&ModCapsLock != 0) == (wire&64 != 0) && (k.Modifiers&ModNumLock != 0) == (wire&128 != 0)
	zzverif.Assert(named, "kitty-modifier-names-are-the-protocol-bits")
	zzverif.Assert(k.EventType == wantEvent, "kitty-event-type")
	if nText > 0 {
		zzverif.Assert(k.Text == want, "kitty-text")
	} else {
		// documented work-around: Shift (ignoring locks) + printable key without text
		shiftOnly := wantMods&^(ModCapsLock|ModNumLock) == ModShift
		if !shiftOnly {
			zzverif.Assert(k.Text == "", "kitty-no-text-invented")
		}
	}
	zzverif.Reach("end")
}

func verifIf(c bool, r rune) rune {
	if c {
		return r
	}
	return 0
}

// xterm function keys: final byte -> key, for CSI 1 ; m X and SS3 X
var verifLetterKeys = []struct {
	final rune
	key   rune
	ss3   bool
}{
	{'A', KeyUp, true}, {'B', KeyDown, true}, {'C', KeyRight, true}, {'D', KeyLeft, true},
	{'F', KeyEnd, true}, {'H', KeyHome, true}, {'P', KeyF01, true}, {'Q', KeyF02, true}, {'S', KeyF04, true},
}

// xterm CSI n ~ keys
var verifTildeKeys = []struct {
	n   int
	key rune
}{
	{2, KeyInsert}, {3, KeyDelete}, {5, KeyPgUp}, {6, KeyPgDown}, {15, KeyF05}, {17, KeyF06}, {18, KeyF07},
	{19, KeyF08}, {20, KeyF09}, {21, KeyF10}, {23, KeyF11}, {24, KeyF12},
}

// VerifC09DecodeLegacy: C0 controls, ESC x, SS3 and CSI function keys with the xterm
// modifier parameter decode as their encodings specify.
func VerifC09DecodeLegacy() {
	m := int(zzverif.Byte("m")) // xterm modifier parameter, 1 = none
	zzverif.Assume(m >= 1 && m <= 16)
	switch zzverif.Choose("form", 6) {
	case 5: // printable text: the key's text is the whole grapheme cluster, as typed
		g := []string{"a", "Z", "é", "e\u0301", "\U0001F1E9\U0001F1EA", "\U0001F469‍\U0001F680", "世"}[zzverif.Choose("grapheme", 7)]
		k := decodeKey(ansi.Print{Grapheme: g, Width: 1})
		first := []rune(g)[0]
		zzverif.Assert(k.Text == g, "print-text-is-the-whole-grapheme")
		zzverif.Assert(k.Keycode == first || k.Keycode == unicode.ToLower(first), "print-keycode-is-the-first-code-point")
	case 0: // C0
		b := zzverif.Byte("b")
		zzverif.Assume(b < 0x20)
		k := decodeKey(ansi.C0(b))
		switch b {
		case 0x08:
			zzverif.Assert(k.Keycode == KeyBackspace && k.Modifiers == 0, "c0-backspace")
		case 0x09:
			zzverif.Assert(k.Keycode == KeyTab && k.Modifiers == 0, "c0-tab")
		case 0x0D:
			zzverif.Assert(k.Keycode == KeyEnter && k.Modifiers == 0, "c0-enter")
		case 0x1B:
			zzverif.Assert(k.Keycode == KeyEsc && k.Modifiers == 0, "c0-escape")
		case 0x00:
			zzverif.Assert(k.Keycode == '@' && k.Modifiers == ModCtrl, "c0-ctrl-at")
		default:
			want := rune(b) + 0x40
			if b <= 0x1A {
				want = rune(b) + 0x60
			}
			zzverif.Assert(k.Keycode == want && k.Modifiers == ModCtrl, "c0-ctrl-letter")
		}
	case 1: // ESC x = Alt+x
		b := zzverif.Byte("b")
		zzverif.Assume(b >= 0x20 && b <= 0x7E)
		k := decodeKey(ansi.ESC{Final: rune(b)})
		zzverif.Assert(k.Keycode == rune(b) && k.Modifiers == ModAlt, "esc-prefix-is-alt")
	case 2: // SS3 x
		e := verifLetterKeys[zzverif.Choose("letter", len(verifLetterKeys))]
		k := decodeKey(ansi.SS3(e.final))
		zzverif.Assert(k.Keycode == e.key && k.Modifiers == 0, "ss3-function-key")
	case 3: // CSI 1 ; m X
		e := verifLetterKeys[zzverif.Choose("letter", len(verifLetterKeys))]
		k := decodeKey(ansi.CSI{Final: e.final, Parameters: [][]int{{1}, {m}}})
		zzverif.Assert(k.Keycode == e.key, "csi-letter-key")
		zzverif.Assert(k.Modifiers == ModifierMask(m-1), "csi-letter-modifiers")
	case 4: // CSI n ; m ~
		e := verifTildeKeys[zzverif.Choose("tilde", len(verifTildeKeys))]
		k := decodeKey(ansi.CSI{Final: '~', Parameters: [][]int{{e.n}, {m}}})
		zzverif.Assert(k.Keycode == e.key, "csi-tilde-key")
		zzverif.Assert(k.Modifiers == ModifierMask(m-1), "csi-tilde-modifiers")
	}
	zzverif.Reach("end")
}

// VerifC09Protocols: a chord that both the legacy and the kitty encoding express
// unambiguously decodes to keys with the same String() that match the same bindings.
func VerifC09Protocols() {
	var legacy, kitty Key
	switch zzverif.Choose("class", 4) {
	case 0: // Ctrl+letter (minus the C0 aliases h i j m [)
		l := zzverif.Byte("letter")
		zzverif.Assume(l >= 'a' && l <= 'z' && l != 'h' && l != 'i' && l != 'j' && l != 'm')
		legacy = decodeKey(ansi.C0(l - 0x60))
		kitty = decodeKey(ansi.CSI{Final: 'u', Parameters: [][]int{{int(l)}, {5}}})
	case 1: // Alt + unshifted printable
		c := zzverif.Byte("char")
		zzverif.Assume(c >= 0x20 && c <= 0x7E && !(c >= 'A' && c <= 'Z'))
		legacy = decodeKey(ansi.ESC{Final: rune(c)})
		kitty = decodeKey(ansi.CSI{Final: 'u', Parameters: [][]int{{int(c)}, {3}}})
	case 2: // plain printable, unshifted
		c := zzverif.Byte("char")
		zzverif.Assume(c >= 0x20 && c <= 0x7E && !(c >= 'A' && c <= 'Z'))
		legacy = decodeKey(ansi.Print{Grapheme: string([]byte{c}), Width: 1})
		kitty = decodeKey(ansi.CSI{Final: 'u', Parameters: [][]int{{int(c)}, {1}, {int(c)}}})
	case 3: // Shift+letter producing text
		l := zzverif.Byte("letter")
		zzverif.Assume(l >= 'a' && l <= 'z')
		u := l - 0x20
		legacy = decodeKey(ansi.Print{Grapheme: string([]byte{u}), Width: 1})
		kitty = decodeKey(ansi.CSI{Final: 'u', Parameters: [][]int{{int(l), int(u)}, {2}, {int(u)}}})
	}
	if zzverif.Param("nonascii") != 0 {
		// Shift+letter of another script: legacy sends the upper-case letter as text, kitty
		// reports the lower-case key with the shifted code and text
		pair := [][2]rune{{'ф', 'Ф'}, {'ω', 'Ω'}, {'é', 'É'}, {'ж', 'Ж'}}[zzverif.Choose("pair", 4)]
		legacy = decodeKey(ansi.Print{Grapheme: string(pair[1]), Width: 1})
		kitty = decodeKey(ansi.CSI{Final: 'u', Parameters: [][]int{{int(pair[0]), int(pair[1])}, {2}, {int(pair[1])}}})
	}
	zzverif.Assert(legacy.String() == kitty.String(), "same-description-under-both-protocols")
	bkey := rune(zzverif.Byte("bkey"))
	bmods := ModifierMask(zzverif.Uint8("bmods"))
	zzverif.Assert(legacy.Matches(bkey, bmods) == kitty.Matches(bkey, bmods), "same-bindings-under-both-protocols")
	zzverif.Reach("end")
}
