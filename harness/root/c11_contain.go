package vaxis

import "git.sr.ht/~rockorager/vaxis/zzverif"

// verifBareVaxis builds a Vaxis with buffers only (no console, no goroutines).
func verifBareVaxis(cols, rows int) *Vaxis {
	vx := &Vaxis{}
	vx.screenNext = newScreen()
	vx.screenLast = newScreen()
	vx.screenNext.resize(cols, rows)
	vx.screenLast.resize(cols, rows)
	vx.charCache = map[string]int{}
	return vx
}

// verifChain builds a chain of `depth` child windows with free geometry below the root
// window and returns the innermost window together with the oracle's view of it: absolute
// origin (ox,oy) and the visible rectangle [x0,x1) x [y0,y1) = intersection of all ancestors
// and the screen. Origin sums are assumed not to wrap (|offset| < 2^40 per level).
// verifInt returns a free int; for small limits it is built from an 8-bit variable so that
// solver terms stay narrow (the caller still assumes the range explicitly).
func verifInt(name string, lim int) int {
	if lim <= 120 {
		return int(int8(zzverif.Byte(name)))
	}
	return zzverif.Int(name)
}

func verifChain(vx *Vaxis, W, H, depth int, literal bool) (win Window, ox, oy, x0, y0, x1, y1 int) {
	win = vx.Window()
	x1, y1 = W, H
	lim := zzverif.Param("lim")
	for d := 0; d < depth; d++ {
		var col, row, cols, rows int
		if d == 0 && depth > 1 && zzverif.Param("parents") != 0 {
			// depth >= 2 quick variant: the outer child is one of a few concrete rectangles
			// (not covering the screen, partly outside it, negative offset), the inner free
			g := [][4]int{{2, 1, 2, 2}, {1, 0, 2, 3}, {-1, -1, 3, 3}}[zzverif.Choose("parent", 3)]
			col, row, cols, rows = g[0], g[1], g[2], g[3]
		} else {
			col, row = verifInt("col", lim), verifInt("row", lim)
			cols, rows = verifInt("cols", lim), verifInt("rows", lim)
		}
		zzverif.Assume(col > -lim && col < lim && row > -lim && row < lim)
		if lim < 1<<20 {
			// small-domain variant: sizes bounded as well (keeps 64-bit adders out of the queries)
			zzverif.Assume(cols > -lim && cols < lim && rows > -lim && rows < lim)
		}
		var child Window
		if literal {
			p := win
			child = Window{Vx: vx, Parent: &p, Column: col, Row: row, Width: cols, Height: rows}
		} else {
			child = win.New(col, row, cols, rows)
		}
		ox += col
		oy += row
		cw, ch := child.Width, child.Height
		if ox > x0 {
			x0 = ox
		}
		if oy > y0 {
			y0 = oy
		}
		// right/bottom edge of the child in absolute coordinates, saturating
		ex, ey := x1, y1
		if cw <= 0 {
			ex = x0
		}
		if cw > 0 && cw < lim && ox+cw < ex {
			ex = ox + cw
		}
		if ch <= 0 {
			ey = y0
		}
		if ch > 0 && ch < lim && oy+ch < ey {
			ey = oy + ch
		}
		x1, y1 = ex, ey
		win = child
	}
	return
}

// VerifC11Contain: after SetCell / SetStyle on the innermost window of a chain with free
// geometry, only cells inside the intersection of every rectangle and the screen may change,
// and an accepted cell lands at absolute origin + offset.
func VerifC11Contain() {
	const W, H = 4, 3
	depth := zzverif.Param("depth")
	literal := zzverif.Param("literal") != 0
	vx := verifBareVaxis(W, H)
	win, ox, oy, x0, y0, x1, y1 := verifChain(vx, W, H, depth, literal)
	op := zzverif.Choose("op", 2)
	lim := zzverif.Param("lim")
	c, r := verifInt("c", lim), verifInt("r", lim)
	mark := Cell{Character: Character{Grapheme: "x", Width: 1}, Style: Style{Attribute: AttrBold}}
	switch op {
	case 0:
		win.SetCell(c, r, mark)
	case 1:
		win.SetStyle(c, r, mark.Style)
	}
	zzverif.Assume(c > -lim && c < lim && r > -lim && r < lim)
	inRange := true
	ax, ay := ox+c, oy+r
	accepted := c >= 0 && r >= 0 && c < win.Width && r < win.Height
	okOutside, okLands, okWritten := true, true, true
	for y := 0; y < H; y++ {
		for x := 0; x < W; x++ {
			changed := vx.screenNext.buf[y][x].Attribute != 0
			inside := x >= x0 && x < x1 && y >= y0 && y < y1
			here := inRange && x == ax && y == ay
			okOutside = okOutside && (!changed || inside)
			okLands = okLands && (!changed || here)
			okWritten = okWritten && (!(here && inside && accepted) || changed)
		}
	}
	zzverif.Assert(okOutside, "write-outside-window")
	zzverif.Assert(okLands, "lands-at-origin-plus-offset")
	zzverif.Assert(okWritten, "accepted-cell-written")
	zzverif.Reach("end")
}

// VerifC11Fill: Fill / Clear on the innermost window change exactly the visible rectangle.
func VerifC11Fill() {
	const W, H = 4, 3
	depth := zzverif.Param("depth")
	vx := verifBareVaxis(W, H)
	win, _, _, x0, y0, x1, y1 := verifChain(vx, W, H, depth, false)
	maxw, maxh := zzverif.Param("maxw"), zzverif.Param("maxh")
	zzverif.Assume(win.Width <= maxw && win.Height <= maxh)
	mark := Cell{Character: Character{Grapheme: "x", Width: 1}, Style: Style{Attribute: AttrBold}}
	win.Fill(mark)
	okOutside, okCovers := true, true
	for y := 0; y < H; y++ {
		for x := 0; x < W; x++ {
			changed := vx.screenNext.buf[y][x].Attribute != 0
			inside := x >= x0 && x < x1 && y >= y0 && y < y1
			okOutside = okOutside && (!changed || inside)
			okCovers = okCovers && (!inside || changed)
		}
	}
	zzverif.Assert(okOutside, "fill-outside-window")
	zzverif.Assert(okCovers, "fill-covers-visible")
	zzverif.Reach("end")
}
