package vaxis

import "git.sr.ht/~rockorager/vaxis/zzverif"

func verifRenderVaxis(cols, rows int) (*Vaxis, *verifConsole) {
	vx := verifBareVaxis(cols, rows)
	con := &verifConsole{}
	vx.console = con
	vx.tw = newWriter(vx)
	vx.winSize = Resize{Cols: cols, Rows: rows}
	return vx, con
}

type verifGlyph struct {
	g string
	w int // width given by the application (0 = let vaxis measure)
}

// the cell alphabet: never written, narrow explicit, narrow auto-measured, wide explicit,
// wide auto-measured, multi-codepoint auto-measured
// (index 0: left as Clear() put it; last index: an explicitly written empty Cell{})
var verifAlphabet = []verifGlyph{{"", 0}, {"a", 1}, {"b", 0}, {"世", 2}, {"界", 0}, {"é", 0}, {"", 0}}

// verifExpectStyle is what a conforming terminal should show for an application style under
// the advertised capabilities.
func verifExpectStyle(vx *Vaxis, st Style) Style {
	if !vx.caps.rgb {
		st.Foreground = st.Foreground.asIndex()
		st.Background = st.Background.asIndex()
		st.UnderlineColor = st.UnderlineColor.asIndex()
	}
	if !vx.caps.styledUnderlines {
		if st.UnderlineStyle != UnderlineOff {
			st.UnderlineStyle = UnderlineSingle
		}
		st.UnderlineColor = 0
	}
	if st.Hyperlink == "" {
		st.HyperlinkParams = ""
	}
	return st
}

func verifStyleEq(a, b Style) bool {
	return a.Foreground == b.Foreground && a.Background == b.Background && a.UnderlineColor == b.UnderlineColor &&
		a.UnderlineStyle == b.UnderlineStyle && a.Attribute == b.Attribute && a.Hyperlink == b.Hyperlink && a.HyperlinkParams == b.HyperlinkParams
}

// verifCheckFrame compares the reference terminal with the application's screen.
func verifCheckFrame(t *refTerm, vx *Vaxis, tag string) {
	zzverif.Assert(t.bad == "", tag+":only-known-vocabulary")
	cellsOK, definedOK := true, true
	for row := 0; row < t.h; row++ {
		for col := 0; col < t.w; {
			app := vx.screenNext.buf[row][col]
			w := app.Width
			if w == 0 {
				w = rtWidth(app.Grapheme)
			}
			g := app.Grapheme
			if w == 0 {
				g, w = " ", 1 // blank in the cell's style
			}
			term := t.grid[row][col]
			definedOK = definedOK && term.defined
			cellsOK = cellsOK && term.g == g && term.w == w && verifStyleEq(term.st, verifExpectStyle(vx, app.Style))
			for k := 1; k < w && col+k < t.w; k++ {
				definedOK = definedOK && t.grid[row][col+k].defined && t.grid[row][col+k].cont
			}
			col += w
		}
	}
	zzverif.Assert(definedOK, tag+":no-reliance-on-terminal-specific-leftovers")
	zzverif.Assert(cellsOK, tag+":cells-equal-application-screen")
	c := vx.cursorNext
	if c.visible {
		zzverif.Assert(t.visible == 1, tag+":cursor-visible-as-requested")
		zzverif.Assert(t.row == c.row && t.col == c.col, tag+":cursor-position-as-requested")
		zzverif.Assert(t.shape == int(c.style), tag+":cursor-shape-as-requested")
	} else {
		zzverif.Assert(t.visible == 0, tag+":cursor-hidden-as-requested")
	}
	zzverif.Assert(verifStyleEq(t.pen, Style{}), tag+":pen-reset-and-link-closed")
	zzverif.Assert(t.syncDepth == 0, tag+":synchronized-update-balanced")
	// capability gating (C07)
	gated := true
	for tagName := range t.tags {
		switch tagName {
		case "synchronizedUpdate":
			gated = gated && vx.caps.synchronizedUpdate
		case "rgb":
			gated = gated && vx.caps.rgb
		case "styledUnderlines":
			gated = gated && vx.caps.styledUnderlines
		case "explicitWidth":
			gated = gated && vx.caps.explicitWidth
		default:
			gated = false
		}
	}
	zzverif.Assert(gated, tag+":only-advertised-features-used")
}

func verifSymCapsRender(vx *Vaxis) {
	vx.caps.rgb = zzverif.Bool("cap.rgb")
	vx.caps.styledUnderlines = zzverif.Bool("cap.styledUnderlines")
	vx.caps.synchronizedUpdate = zzverif.Bool("cap.sync")
	vx.caps.explicitWidth = zzverif.Bool("cap.explicitWidth")
	vx.caps.unicodeCore = zzverif.Bool("cap.unicodeCore")
}

// verifAlphabetLimit, when non-zero, restricts verifDrawFrame to the first entries of the
// alphabet plus the explicit empty cell (harnesses whose subject is not the glyph classes).
var verifAlphabetLimit int

func verifDrawFrame(vx *Vaxis, tag string, cols, rows int, styleOf func(tag string, i int) Style) {
	win := vx.Window()
	win.Clear()
	i := 0
	for r := 0; r < rows; r++ {
		for c := 0; c < cols; c++ {
			sel := 0
			if verifAlphabetLimit > 0 {
				sel = zzverif.Choose(tag+".cell", verifAlphabetLimit+1)
				if sel == verifAlphabetLimit {
					sel = len(verifAlphabet) - 1
				}
			} else {
				sel = zzverif.Choose(tag+".cell", len(verifAlphabet))
			}
			gl := verifAlphabet[sel]
			// a wide glyph in the last column cannot be displayed; covered cells are skipped
			zzverif.Assume(!(rtWidth(gl.g) == 2 && c == cols-1))
			if sel == len(verifAlphabet)-1 {
				win.SetCell(c, r, Cell{})
			} else if sel != 0 {
				win.SetCell(c, r, Cell{Character: Character{Grapheme: gl.g, Width: gl.w}, Style: styleOf(tag, i)})
			}
			i++
			if rtWidth(gl.g) == 2 {
				c++ // the covered cell is not written
				i++
			}
		}
	}
}

func verifFlush(vx *Vaxis, con *verifConsole, t *refTerm, refresh bool) {
	if refresh {
		vx.Refresh()
	} else {
		vx.Render()
	}
	t.tags = map[string]bool{}
	t.feed(con.take())
}

// VerifC01Layout: two frames of free cell contents (narrow / wide / zero-width /
// multi-codepoint, explicit or auto-measured width, never written) on a tiny screen, default
// styles; frame 1 is flushed with Refresh onto a terminal showing unknown content, frame 2
// with Render or Refresh (free); after each flush the reference terminal shows the
// application's screen, cursor, pen and sync state as the property requires.
func VerifC01Layout() {
	cols, rows := zzverif.Param("cols"), zzverif.Param("rows")
	vx, con := verifRenderVaxis(cols, rows)
	if zzverif.Param("symcaps") != 0 {
		verifSymCapsRender(vx)
	} else {
		// layout does not depend on the colour capabilities: fixed on; width handling free
		vx.caps.rgb, vx.caps.styledUnderlines, vx.caps.synchronizedUpdate = true, true, true
		vx.caps.explicitWidth = zzverif.Bool("cap.explicitWidth")
		vx.caps.unicodeCore = vx.caps.explicitWidth
	}
	t := newRefTerm(cols, rows)
	t.visible = 0
	plain := func(string, int) Style { return Style{} }
	verifDrawFrame(vx, "f1", cols, rows, plain)
	verifFlush(vx, con, t, true)
	verifCheckFrame(t, vx, "frame1")
	verifDrawFrame(vx, "f2", cols, rows, plain)
	verifFlush(vx, con, t, zzverif.Bool("refresh2"))
	verifCheckFrame(t, vx, "frame2")
	zzverif.Reach("end")
}

// VerifC01Resize: a frame on a 2x1 screen, then the terminal is resized (to 1x1, 3x1 or 2x2)
// and reports it; the Render that notices the resize draws nothing (it resizes the buffers
// and posts the Resize event); the application redraws at the new size and the next Render
// brings the resized terminal - whose content after a resize is unknown - to exactly the
// application's screen.
func VerifC01Resize() {
	verifAlphabetLimit = 4 // cleared, narrow explicit, narrow auto-width, wide explicit (+ empty cell)
	vx, con := verifRenderVaxis(2, 1)
	vx.queue = make(chan Event, 8)
	vx.caps.rgb, vx.caps.styledUnderlines = true, true
	vx.caps.synchronizedUpdate = zzverif.Bool("cap.sync")
	t := newRefTerm(2, 1)
	t.visible = 0
	plain := func(string, int) Style { return Style{} }
	verifDrawFrame(vx, "f1", 2, 1, plain)
	verifFlush(vx, con, t, true)
	verifCheckFrame(t, vx, "frame1")
	ns := [][2]int{{1, 1}, {3, 1}, {2, 2}}[zzverif.Choose("newsize", 3)]
	con.w, con.h = ns[0], ns[1]
	vx.Resize()
	vx.Render()
	zzverif.Assert(len(con.take()) == 0, "render-that-notices-the-resize-draws-nothing")
	gotEvent := false
	for len(vx.queue) > 0 {
		if r, ok := (<-vx.queue).(Resize); ok {
			gotEvent = r.Cols == ns[0] && r.Rows == ns[1]
		}
	}
	zzverif.Assert(gotEvent, "resize-event-carries-the-new-size")
	// the resized terminal: same modes, pen and cursor visibility, unknown content
	t2 := newRefTerm(ns[0], ns[1])
	t2.visible, t2.pen, t2.modes, t2.syncDepth, t2.shape = t.visible, t.pen, t.modes, t.syncDepth, t.shape
	verifDrawFrame(vx, "f2", ns[0], ns[1], plain)
	verifFlush(vx, con, t2, false)
	verifCheckFrame(t2, vx, "frame-after-resize")
	zzverif.Reach("end")
}

// VerifC01VeryWide: glyphs wider than two cells (an explicit width of 3, as OSC 66 allows) on
// a 3x1 screen over three frames: each frame is the width-3 glyph or three cells each cleared
// or narrow; the first frame is a Refresh, the others plain Renders: after every frame the
// reference terminal shows the application's screen without relying on what a terminal leaves
// of an overwritten wide glyph.
func VerifC01VeryWide() {
	vx, con := verifRenderVaxis(3, 1)
	vx.caps.rgb, vx.caps.styledUnderlines, vx.caps.synchronizedUpdate = true, true, true
	vx.caps.explicitWidth, vx.caps.unicodeCore = true, true
	t := newRefTerm(3, 1)
	t.visible = 0
	for f := 0; f < 3; f++ {
		win := vx.Window()
		win.Clear()
		if zzverif.Bool("veryWide") {
			win.SetCell(0, 0, Cell{Character: Character{Grapheme: "x", Width: 3}})
		} else {
			for c := 0; c < 3; c++ {
				if zzverif.Bool("narrow") {
					win.SetCell(c, 0, Cell{Character: Character{Grapheme: "a", Width: 1}})
				}
			}
		}
		verifFlush(vx, con, t, f == 0)
		verifCheckFrame(t, vx, "frame")
	}
	zzverif.Reach("end")
}

var verifRenderColours = []Color{0, IndexColor(1), IndexColor(9), IndexColor(200), RGBColor(1, 22, 233), RGBColor(255, 255, 255)}

// verifFreeStyle: mode 0 frees the attribute mask and underline style; mode 1 frees the three
// colours over class representatives (default, 0-7, 8-15, 16-255, two RGB values).
// verifCapRGB: whether the terminal of the running harness advertised RGB (set by the harness
// once the capability is decided on the path).
var verifCapRGB bool

func verifFreeStyle(tag string, mode int) Style {
	var st Style
	which := zzverif.Param("which") // 0: both cells free, 1: only the first, 2: only the second
	if which == 1 && tag == "s2" || which == 2 && tag == "s1" {
		return st
	}
	if mode == 2 {
		// one colour channel at a time
		var c Color
		switch k := zzverif.Choose(tag+".colour", len(verifRenderColours)+1+zzverif.Param("rgbfree")); {
		case k < len(verifRenderColours):
			c = verifRenderColours[k]
		case k == len(verifRenderColours):
			c = IndexColor(zzverif.Uint8(tag + ".index")) // any palette index
		default:
			// any direct colour, on terminals with RGB support (without it the expected
			// colour is the nearest palette entry, which is C07's asIndex harness)
			zzverif.Assume(verifCapRGB)
			c = RGBColor(zzverif.Uint8(tag+".r"), zzverif.Uint8(tag+".g"), zzverif.Uint8(tag+".b"))
		}
		switch zzverif.Param("chan") {
		case 0:
			st.Foreground = c
		case 1:
			st.Background = c
		case 2:
			st.UnderlineColor = c
			// an underline colour with no underline, a single or a double one: the colour is
			// pen state of its own
			st.UnderlineStyle = UnderlineStyle(zzverif.Choose(tag+".ul", 3))
		}
		return st
	}
	if mode == 3 {
		// pair mode: both cells free over bold/dim/italic/blink (16 x 16 transitions)
		st.Attribute = AttributeMask(zzverif.Uint8(tag+".attr")) & (AttrBold | AttrDim | AttrItalic | AttrBlink)
	} else if mode == 0 {
		st.Attribute = AttributeMask(zzverif.Uint8(tag+".attr")) & 0xFE
		st.UnderlineStyle = UnderlineStyle(zzverif.Choose(tag+".ul", 6))
	} else {
		st.Foreground = verifRenderColours[zzverif.Choose(tag+".fg", len(verifRenderColours))]
		st.Background = verifRenderColours[zzverif.Choose(tag+".bg", len(verifRenderColours))]
		st.UnderlineColor = verifRenderColours[zzverif.Choose(tag+".ulc", len(verifRenderColours))]
		st.UnderlineStyle = UnderlineStyle(zzverif.Choose(tag+".ul", 3))
	}
	return st
}

// VerifC01Styles: a 1x3 screen whose first two cells carry free styles in frame 2 (frame 1:
// plain text): every ordered pair of styles of two neighbouring changed cells, under free
// rgb / styled-underline / synchronized-output capabilities. mode 0: attribute masks and
// underline styles; mode 1: colours.
func VerifC01Styles() {
	mode := zzverif.Param("mode")
	vx, con := verifRenderVaxis(3, 1)
	vx.caps.rgb = zzverif.Bool("cap.rgb")
	vx.caps.styledUnderlines = zzverif.Bool("cap.styledUnderlines")
	vx.caps.synchronizedUpdate = zzverif.Bool("cap.sync")
	t := newRefTerm(3, 1)
	t.visible = 0
	win := vx.Window()
	win.Clear()
	win.SetCell(0, 0, Cell{Character: Character{Grapheme: "x", Width: 1}})
	verifFlush(vx, con, t, true)
	verifCheckFrame(t, vx, "frame1")
	win.Clear()
	verifCapRGB = false
	if vx.caps.rgb {
		verifCapRGB = true
	}
	win.SetCell(0, 0, Cell{Character: Character{Grapheme: "a", Width: 1}, Style: verifFreeStyle("s1", mode)})
	win.SetCell(1, 0, Cell{Character: Character{Grapheme: "b", Width: 1}, Style: verifFreeStyle("s2", mode)})
	verifFlush(vx, con, t, false)
	verifCheckFrame(t, vx, "frame2")
	zzverif.Reach("end")
}

// VerifC01Cursor: cursor requests (hidden, or visible at a free position with a free shape)
// in `frames` consecutive frames, with and without cell changes in between, Render or Refresh.
func VerifC01Cursor() {
	vx, con := verifRenderVaxis(3, 2)
	vx.caps.synchronizedUpdate = zzverif.Bool("cap.sync")
	t := newRefTerm(3, 2)
	t.visible = 0
	frames := zzverif.Param("frames")
	for f := 0; f < frames; f++ {
		win := vx.Window()
		if zzverif.Bool("draw") {
			win.SetCell(f%3, 0, Cell{Character: Character{Grapheme: "a", Width: 1}})
		}
		switch zzverif.Choose("cursorop", 3) {
		case 0:
			vx.HideCursor()
		case 1:
			vx.ShowCursor(2*zzverif.Choose("ccol", 2), zzverif.Choose("crow", 2), []CursorStyle{CursorDefault, CursorBlock, CursorBeamBlinking}[zzverif.Choose("shape", 3)])
		case 2: // a widget shows the cursor, a later one hides it again
			vx.ShowCursor(2*zzverif.Choose("ccol", 2), zzverif.Choose("crow", 2), []CursorStyle{CursorDefault, CursorBlock, CursorBeamBlinking}[zzverif.Choose("shape", 3)])
			vx.HideCursor()
		}
		verifFlush(vx, con, t, f == 0 || zzverif.Bool("refresh"))
		verifCheckFrame(t, vx, "frame")
	}
	zzverif.Reach("end")
}

// VerifC01Pointer: the mouse pointer shape requested by the application is the shape the
// terminal shows after every frame, over `frames` frames each of which may change the shape
// (default / clickable / text), may change a cell, and is flushed by Render or Refresh.
func VerifC01Pointer() {
	vx, con := verifRenderVaxis(2, 1)
	vx.caps.synchronizedUpdate = zzverif.Bool("cap.sync")
	t := newRefTerm(2, 1)
	t.visible = 0
	want := ""
	frames := zzverif.Param("frames")
	for f := 0; f < frames; f++ {
		win := vx.Window()
		if zzverif.Bool("draw") {
			win.SetCell(f%2, 0, Cell{Character: Character{Grapheme: "a", Width: 1}})
		}
		switch zzverif.Choose("shape", 4) {
		case 1:
			vx.SetMouseShape(MouseShapeDefault)
			want = "default"
		case 2:
			vx.SetMouseShape(MouseShapeClickable)
			want = "pointer"
		case 3:
			vx.SetMouseShape(MouseShapeTextInput)
			want = "text"
		}
		verifFlush(vx, con, t, f == 0 || zzverif.Bool("refresh"))
		verifCheckFrame(t, vx, "frame")
		zzverif.Assert(t.pointer == want, "pointer-shape-as-requested")
	}
	zzverif.Reach("end")
}

var verifLinks = []string{"", "http://a", "http://b"}

// VerifC01Links: hyperlinks on a 1x4 screen: each cell of frame 2 carries a free link
// (none / a / b, with or without id) and is changed or left as in frame 1 (free), so that
// repositioning happens between linked cells.
func VerifC01Links() {
	vx, con := verifRenderVaxis(4, 1)
	vx.caps.rgb, vx.caps.styledUnderlines, vx.caps.synchronizedUpdate = true, true, true
	t := newRefTerm(4, 1)
	t.visible = 0
	win := vx.Window()
	var links [4]Style
	for c := 0; c < 4; c++ {
		l := verifLinks[zzverif.Choose("link", len(verifLinks))]
		links[c] = Style{Hyperlink: l}
		if l != "" && zzverif.Bool("withid") {
			links[c].HyperlinkParams = "id=1"
		}
		win.SetCell(c, 0, Cell{Character: Character{Grapheme: "a", Width: 1}, Style: links[c]})
	}
	verifFlush(vx, con, t, true)
	verifCheckFrame(t, vx, "frame1")
	for c := 0; c < 4; c++ {
		if zzverif.Bool("change") {
			win.SetCell(c, 0, Cell{Character: Character{Grapheme: "b", Width: 1}, Style: links[c]})
		}
	}
	verifFlush(vx, con, t, false)
	verifCheckFrame(t, vx, "frame2")
	zzverif.Reach("end")
}
