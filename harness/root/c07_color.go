package vaxis

import (
	"strings"

	"git.sr.ht/~rockorager/vaxis/zzverif"
	"github.com/mattn/go-runewidth"
	"github.com/rivo/uniseg"
)

// verifDist is the library's weighted squared distance, scaled by 10^4 to integers:
// (0.3 dR)^2 + (0.59 dG)^2 + (0.11 dB)^2  =  (900 dR^2 + 3481 dG^2 + 121 dB^2) / 10^4.
// It is computed in float64 on integer-valued operands (exact: every product is below 2^53),
// so that under the engine's Real abstraction both sides of the comparison are polynomials
// over the same theory.
func verifDist(a, b uint32) float64 {
	dr := float64(int(uint8(a>>16)) - int(uint8(b>>16)))
	dg := float64(int(uint8(a>>8)) - int(uint8(b>>8)))
	db := float64(int(uint8(a)) - int(uint8(b)))
	return 900*dr*dr + 3481*dg*dg + 121*db*db
}

func verifRGB24(name string) uint32 {
	return uint32(zzverif.IntByte(name+".r"))<<16 | uint32(zzverif.IntByte(name+".g"))<<8 | uint32(zzverif.IntByte(name+".b"))
}

// VerifC07AsIndexPassThrough: default and indexed colours are returned unchanged.
func VerifC07AsIndexPassThrough() {
	v := zzverif.Uint32("v")
	c := Color(v)
	zzverif.Assume(c&rgb == 0)
	zzverif.Assert(c.asIndex() == c, "non-rgb-unchanged")
	zzverif.Reach("end")
}

// VerifC07AsIndexReal: the library's own palette table (its first n entries; n=240: all of
// it) and a free 24-bit colour: the entry returned minimises the exact weighted distance.
// With concrete entries the squares of the colour channels cancel in every comparison, so
// the queries are linear in (r, g, b, r^2, g^2, b^2).
func VerifC07AsIndexReal() {
	n := zzverif.Param("n")
	saved := colorIndex
	colorIndex = saved[:n]
	c := verifRGB24("colour")
	got := RGBColor(uint8(c>>16), uint8(c>>8), uint8(c)).asIndex()
	colorIndex = saved
	zzverif.Assert(got&indexed != 0 && got&rgb == 0, "result-is-indexed")
	idx := int(uint8(got)) - 16
	zzverif.Assert(idx >= 0 && idx < n, "index-is-position-plus-16")
	if idx >= 0 && idx < n {
		best := verifDist(saved[idx], c)
		ok := true
		for j := 0; j < n; j++ {
			ok = ok && best <= verifDist(saved[j], c)
		}
		zzverif.Assert(ok, "nearest-under-weighted-distance")
	}
	zzverif.Reach("end")
}

// VerifC07Palette: the table itself is the xterm 256-colour palette (entries 16..255): the
// 6x6x6 cube with levels 0,95,135,175,215,255 and the 24 greys 8+10k. Concrete.
func VerifC07Palette() {
	levels := []uint32{0, 95, 135, 175, 215, 255}
	ok := len(colorIndex) == 240
	for i := 0; i < 216 && ok; i++ {
		want := levels[i/36]<<16 | levels[(i/6)%6]<<8 | levels[i%6]
		ok = ok && colorIndex[i] == want
	}
	for k := 0; k < 24 && ok; k++ {
		v := uint32(8 + 10*k)
		ok = ok && colorIndex[216+k] == v<<16|v<<8|v
	}
	zzverif.Assert(ok, "palette-is-xterm-256")
	zzverif.Reach("end")
}

// VerifC07Width: graphemes are measured with the width method that matches the terminal:
// a terminal that does Unicode-core clustering or takes explicit widths renders a cluster in
// the standard cluster width; a terminal known not to join ZWJ sequences renders the cluster
// without its joiners; any other terminal advances by the sum of the code points' widths.
func VerifC07Width() {
	vx := verifBareVaxis(2, 1)
	vx.caps.unicodeCore = zzverif.Bool("cap.unicodeCore")
	vx.caps.explicitWidth = zzverif.Bool("cap.explicitWidth")
	vx.caps.noZWJ = zzverif.Bool("quirk.noZWJ")
	g := []string{"a", "世", "é", "\U0001F469‍\U0001F680", "\U0001F1E9\U0001F1EA", "❤️"}[zzverif.Choose("grapheme", 6)]
	want := 0
	switch {
	case vx.caps.unicodeCore || vx.caps.explicitWidth:
		want = uniseg.StringWidth(g)
	case vx.caps.noZWJ:
		want = uniseg.StringWidth(strings.ReplaceAll(g, "‍", ""))
	default:
		for _, r := range g {
			if r >= 0xFE00 && r <= 0xFE0F {
				continue // variation selectors take no cell of their own
			}
			want += runewidth.RuneWidth(r)
		}
	}
	zzverif.Assert(vx.RenderedWidth(g) == want, "width-method-matches-the-terminal")
	zzverif.Assert(vx.characterWidth(g) == want && vx.characterWidth(g) == want, "cached-width-is-the-same")
	zzverif.Reach("end")
}
