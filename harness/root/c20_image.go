package vaxis

import (
	"bytes"
	"fmt"
	"image"
	"image/color"
	"strings"

	"git.sr.ht/~rockorager/vaxis/zzverif"
)

// verifImg is an image of free dimensions whose pixels are never read.
type verifImg struct{ w, h int }

func (i verifImg) ColorModel() color.Model { return color.RGBAModel }
func (i verifImg) Bounds() image.Rectangle { return image.Rect(0, 0, i.w, i.h) }
func (i verifImg) At(x, y int) color.Color { return color.RGBA{} }

func verifCeilDiv(a, b int) int {
	q := a / b
	if a%b != 0 {
		q++
	}
	return q
}

var verifCellGeoms = [][2]int{{1, 2}, {2, 4}, {1, 1}, {3, 5}, {7, 15}}

// VerifC20Resize: the dimension arithmetic of resizeImage. Image pixel size free (1..maxpix
// in each dimension), box and cell pixel geometry enumerated: the resulting size in cells
// fits the box, never exceeds the original, and keeps the aspect ratio within one cell.
// Floating point is abstracted to exact reals (DESIGN.md 2.5); the scaler itself is a stub.
func VerifC20Resize() {
	maxpix := zzverif.Param("maxpix")
	maxbox := zzverif.Param("maxbox")
	// enumerated: the mixed bit-vector / nonlinear real queries of symbolic dimensions do not
	// finish (probed: z3 and cvc5 time out), so every size is a separate concrete path
	wPix, hPix := 1+zzverif.Choose("wpix", maxpix), 1+zzverif.Choose("hpix", maxpix)
	w, h := 1+zzverif.Choose("boxw", maxbox), 1+zzverif.Choose("boxh", maxbox)
	geom := verifCellGeoms[zzverif.Choose("geom", len(verifCellGeoms))]
	cw, ch := geom[0], geom[1]
	out := resizeImage(verifImg{wPix, hPix}, w, h, cw, ch)
	nw, nh := out.Bounds().Max.X, out.Bounds().Max.Y
	cols0, lines0 := verifCeilDiv(wPix, cw), verifCeilDiv(hPix, ch)
	zzverif.Assert(nw >= 0 && nh >= 0, "non-negative-size")
	cols, lines := 0, 0
	if nw > 0 {
		cols = verifCeilDiv(nw, cw)
	}
	if nh > 0 {
		lines = verifCeilDiv(nh, ch)
	}
	zzverif.Assert(cols <= w && lines <= h, "fits-the-box")
	zzverif.Assert(cols <= cols0 && lines <= lines0, "never-upscales")
	// aspect: cols/lines ~ cols0/lines0 within one cell in either dimension:
	// |cols*lines0 - lines*cols0| <= max(lines0, cols0)
	d := cols*lines0 - lines*cols0
	if d < 0 {
		d = -d
	}
	m := lines0
	if cols0 > m {
		m = cols0
	}
	zzverif.Assert(d <= m, "aspect-preserved-within-one-cell")
	zzverif.Reach("end")
}

// VerifC20HalfBlock: a 1x2 pixel image whose two pixels have free colour channels and a
// free alpha (all 256 levels each): the cell carries
// exactly the source colours of the opaque pixels and the default colour for transparent
// ones, with the block glyph the combination requires.
func VerifC20HalfBlock() {
	img := image.NewNRGBA(image.Rect(0, 0, 1, 2))
	px := zzverif.Bytes("px", 8)
	for i := range px {
		img.Pix[i] = px[i]
	}
	// every alpha level: below the threshold (50) a pixel is transparent; colours are compared
	// exactly only for fully opaque pixels (un-premultiplying a partial alpha rounds)
	topOpaque, botOpaque := px[3] == 255, px[7] == 255
	topClear, botClear := px[3] < 50, px[7] < 50
	vx := verifBareVaxis(2, 2)
	hb := vx.NewHalfBlockImage(img)
	hb.Resize(1, 1)
	w, h := hb.CellSize()
	zzverif.Assert(w == 1 && h == 1 && len(hb.cells) == 1, "one-cell")
	c := hb.cells[0]
	top, bot := RGBColor(px[0], px[1], px[2]), RGBColor(px[4], px[5], px[6])
	switch {
	case topClear && botClear:
		zzverif.Assert(c.Grapheme == " " && c.Foreground == 0 && c.Background == 0, "both-transparent-is-blank-default")
	case topClear:
		zzverif.Assert(c.Grapheme == "▄" && c.Background == 0 && c.Foreground&rgb != 0, "transparent-top-is-default")
		zzverif.Assert(!botOpaque || c.Foreground == bot, "opaque-bottom-reproduced-exactly")
	case botClear:
		zzverif.Assert(c.Grapheme == "▀" && c.Background == 0 && c.Foreground&rgb != 0, "transparent-bottom-is-default")
		zzverif.Assert(!topOpaque || c.Foreground == top, "opaque-top-reproduced-exactly")
	default:
		zzverif.Assert(c.Grapheme == "▀" && c.Foreground&rgb != 0 && c.Background&rgb != 0, "both-pixels-shown")
		zzverif.Assert(!topOpaque || c.Foreground == top, "opaque-top-reproduced-exactly")
		zzverif.Assert(!botOpaque || c.Background == bot, "opaque-bottom-reproduced-exactly")
	}
	// drawing touches only cells inside the target window
	win := vx.Window().New(1, 1, 1, 1)
	hb.Draw(win)
	ok := true
	for y := 0; y < 2; y++ {
		for x := 0; x < 2; x++ {
			changed := vx.screenNext.buf[y][x].Grapheme != ""
			ok = ok && (!changed || (x == 1 && y == 1))
		}
	}
	zzverif.Assert(ok, "draw-stays-inside-window")
	zzverif.Reach("end")
}

// VerifC20KittyCells: the cell size a kitty-protocol image reports after Resize is the pixel
// size resizeImage produced, rounded up to whole cells in each dimension with that
// dimension's own cell size, and fits the requested box (the PNG encoding goroutine is not
// part of the claim and is never scheduled by the engine).
func VerifC20KittyCells() {
	maxpix := zzverif.Param("maxpix")
	maxbox := zzverif.Param("maxbox")
	wPix, hPix := 1+zzverif.Choose("wpix", maxpix), 1+zzverif.Choose("hpix", maxpix)
	w, h := 1+zzverif.Choose("boxw", maxbox), 1+zzverif.Choose("boxh", maxbox)
	geom := verifCellGeoms[zzverif.Choose("geom", len(verifCellGeoms))]
	cw, ch := geom[0], geom[1]
	vx := verifBareVaxis(2, 2)
	vx.queue = make(chan Event, 4)
	vx.winSize = Resize{Cols: 10, Rows: 10, XPixel: 10 * cw, YPixel: 10 * ch}
	k := &KittyImage{vx: vx, img: verifImg{wPix, hPix}, buf: bytes.NewBuffer(nil)}
	k.Resize(w, h)
	gotW, gotH := k.CellSize()
	out := resizeImage(verifImg{wPix, hPix}, w, h, cw, ch)
	nw, nh := out.Bounds().Max.X, out.Bounds().Max.Y
	zzverif.Assert(gotW == verifCeilDiv(nw, cw) && gotH == verifCeilDiv(nh, ch), "kitty-cell-size-is-pixel-size-rounded-up-per-dimension")
	zzverif.Assert(gotW <= w && gotH <= h, "kitty-cell-size-fits-the-box")
	zzverif.Reach("end")
}

// VerifC20Placements: image placements across `frames` frames (each: Clear, then each of two
// kitty images absent or drawn at one of two positions, then Render or Refresh): a placement
// is transmitted exactly when it is new or changed (or on a full refresh), never while it is
// unchanged, and deleted exactly when it was shown and is dropped or changed (or on a full
// refresh); what the terminal is left showing is what the application drew.
func VerifC20Placements() {
	vx, con := verifRenderVaxis(4, 3)
	imgs := []*KittyImage{
		{vx: vx, id: 1, w: 1, h: 1, uploaded: 1, buf: bytes.NewBuffer(nil)},
		{vx: vx, id: 2, w: 2, h: 1, uploaded: 1, buf: bytes.NewBuffer(nil)},
	}
	pos := [][2]int{{0, 0}, {2, 1}}
	type shown struct{ id, col, row, w, h int }
	put := func(s shown) string {
		return fmt.Sprintf("\x1B_Ga=p,i=%d,p=%d,C=1\x1B\\", s.id, uint(s.col)<<16|uint(s.row))
	}
	del := func(s shown) string {
		return fmt.Sprintf("\x1B_Ga=d,d=i,i=%d,p=%d\x1B\\", s.id, uint(s.col)<<16|uint(s.row))
	}
	var last []shown
	n := zzverif.Param("frames")
	for f := 0; f < n; f++ {
		win := vx.Window()
		win.Clear()
		var next []shown
		for i, img := range imgs {
			c := zzverif.Choose("place", 3)
			if c == 0 {
				continue
			}
			p := pos[c-1]
			// the image's size in cells may change between frames (a Resize to another
			// box): height only, width only or both
			if i == 0 && zzverif.Param("sizes") == 1 {
				sz := [][2]int{{1, 1}, {1, 2}, {2, 1}}[zzverif.Choose("cells", 3)]
				img.w, img.h = sz[0], sz[1]
			}
			img.Draw(win.New(p[0], p[1], img.w, img.h))
			next = append(next, shown{i + 1, p[0], p[1], img.w, img.h})
		}
		refresh := f == 0 || zzverif.Bool("refresh")
		if refresh {
			vx.Refresh()
		} else {
			vx.Render()
		}
		out := string(con.take())
		has := func(l []shown, s shown) bool {
			for _, x := range l {
				if x == s {
					return true
				}
			}
			return false
		}
		okPut, okDel := true, true
		at := func(l []shown, id int, p [2]int) (shown, bool) {
			for _, x := range l {
				if x.id == id && x.col == p[0] && x.row == p[1] {
					return x, true
				}
			}
			return shown{}, false
		}
		for _, id := range []int{1, 2} {
			for _, p := range pos {
				// the sequences name image and position; a size change at the same position is
				// a change: the old placement is deleted and the new one transmitted
				s := shown{id: id, col: p[0], row: p[1]}
				n, inNext := at(next, id, p)
				l, inLast := at(last, id, p)
				wantPut, wantDel := 0, 0
				if inNext && (refresh || !has(last, n)) {
					wantPut = 1
				}
				if inLast && (refresh || !has(next, l)) {
					wantDel = 1
				}
				okPut = okPut && strings.Count(out, put(s)) == wantPut
				okDel = okDel && strings.Count(out, del(s)) == wantDel
			}
		}
		zzverif.Assert(okPut, "placement-transmitted-exactly-when-new-or-changed")
		zzverif.Assert(okDel, "placement-deleted-exactly-when-dropped-or-changed")
		last = next
	}
	zzverif.Reach("end")
}

// VerifC20PartialAlpha: a partially transparent source pixel (non-premultiplied r, g, b free,
// alpha from a list of levels at and above the transparency threshold) is un-premultiplied
// back to its own colour: every channel within one step of the source channel (integer
// rounding), alpha preserved.
func VerifC20PartialAlpha() {
	r, g, b := zzverif.Uint8("r"), zzverif.Uint8("g"), zzverif.Uint8("b")
	a := []uint8{50, 51, 100, 128, 200, 254, 255}[zzverif.Choose("alpha", 7)]
	gr, gg, gb, ga := toRGB(color.NRGBA{R: r, G: g, B: b, A: a})
	near := func(got, src uint8) bool {
		d := int(got) - int(src)
		return d >= -1 && d <= 1
	}
	zzverif.Assert(near(gr, r) && near(gg, g) && near(gb, b), "partially-transparent-pixel-keeps-its-colour")
	zzverif.Assert(ga == a, "alpha-preserved")
	zzverif.Reach("end")
}

// VerifC20SixelCells: Sixel.Resize computes its cell size inside its encoding goroutine; the
// goroutine is run here (the main goroutine waits for the Redraw it posts), quantiser and
// sixel encoder included, on a few small images: the reported cell size is the resized pixel
// size rounded up per dimension with that dimension's own cell size, within the box.
func VerifC20SixelCells() {
	wPix := []int{7, 15, 20}[zzverif.Choose("wpix", 3)]
	hPix := []int{8, 40}[zzverif.Choose("hpix", 2)]
	box := [][2]int{{2, 2}, {5, 2}}[zzverif.Choose("box", 2)]
	geom := [][2]int{{10, 20}, {7, 15}}[zzverif.Choose("geom", 2)]
	cw, ch := geom[0], geom[1]
	vx := verifBareVaxis(2, 2)
	vx.queue = make(chan Event, 4)
	vx.winSize = Resize{Cols: 10, Rows: 10, XPixel: 10 * cw, YPixel: 10 * ch}
	s := &Sixel{vx: vx, img: image.NewRGBA(image.Rect(0, 0, wPix, hPix)), buf: bytes.NewBuffer(nil)}
	zzverif.Terminates(4000000)
	s.Resize(box[0], box[1])
	<-vx.queue // the Redraw posted when encoding is done
	gotW, gotH := s.CellSize()
	out := resizeImage(verifImg{wPix, hPix}, box[0], box[1], cw, ch)
	nw, nh := out.Bounds().Max.X, out.Bounds().Max.Y
	zzverif.Assert(gotW == verifCeilDiv(nw, cw) && gotH == verifCeilDiv(nh, ch), "sixel-cell-size-is-pixel-size-rounded-up-per-dimension")
	zzverif.Assert(gotW <= box[0] && gotH <= box[1], "sixel-cell-size-fits-the-box")
	zzverif.Reach("end")
}
