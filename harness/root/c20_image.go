package vaxis

import (
	"image"
	"image/color"

	"git.sr.ht/~rockorager/vaxis/zzverif"
)

// verifImg is an image of free dimensions whose pixels are never read.
type verifImg struct{ w, h int }

func (i verifImg) ColorModel() color.Model { return color.RGBAModel }
func (i verifImg) Bounds() image.Rectangle { return image.Rect(0, 0, i.w, i.h) }
func (i verifImg) At(x, y int) color.Color { return color.RGBA{} }

func verifCeilDiv(a, b int) int {
	q := a / b
	if a%b != 0 {
		q++
	}
	return q
}

var verifCellGeoms = [][2]int{{1, 2}, {2, 4}, {1, 1}, {3, 5}}

// VerifC20Resize: the dimension arithmetic of resizeImage. Image pixel size free (1..maxpix
// in each dimension), box and cell pixel geometry enumerated: the resulting size in cells
// fits the box, never exceeds the original, and keeps the aspect ratio within one cell.
// Floating point is abstracted to exact reals (DESIGN.md 2.5); the scaler itself is a stub.
func VerifC20Resize() {
	maxpix := zzverif.Param("maxpix")
	maxbox := zzverif.Param("maxbox")
	// enumerated: the mixed bit-vector / nonlinear real queries of symbolic dimensions do not
	// finish (probed: z3 and cvc5 time out), so every size is a separate concrete path
	wPix, hPix := 1+zzverif.Choose("wpix", maxpix), 1+zzverif.Choose("hpix", maxpix)
	w, h := 1+zzverif.Choose("boxw", maxbox), 1+zzverif.Choose("boxh", maxbox)
	geom := verifCellGeoms[zzverif.Choose("geom", len(verifCellGeoms))]
	cw, ch := geom[0], geom[1]
	out := resizeImage(verifImg{wPix, hPix}, w, h, cw, ch)
	nw, nh := out.Bounds().Max.X, out.Bounds().Max.Y
	cols0, lines0 := verifCeilDiv(wPix, cw), verifCeilDiv(hPix, ch)
	zzverif.Assert(nw >= 0 && nh >= 0, "non-negative-size")
	cols, lines := 0, 0
	if nw > 0 {
		cols = verifCeilDiv(nw, cw)
	}
	if nh > 0 {
		lines = verifCeilDiv(nh, ch)
	}
	zzverif.Assert(cols <= w && lines <= h, "fits-the-box")
	zzverif.Assert(cols <= cols0 && lines <= lines0, "never-upscales")
	// aspect: cols/lines ~ cols0/lines0 within one cell in either dimension:
	// |cols*lines0 - lines*cols0| <= max(lines0, cols0)
	d := cols*lines0 - lines*cols0
	if d < 0 {
		d = -d
	}
	m := lines0
	if cols0 > m {
		m = cols0
	}
	zzverif.Assert(d <= m, "aspect-preserved-within-one-cell")
	zzverif.Reach("end")
}

// VerifC20HalfBlock: a 1x2 pixel image whose two pixels have free colour channels and a
// free alpha (all 256 levels each): the cell carries
// exactly the source colours of the opaque pixels and the default colour for transparent
// ones, with the block glyph the combination requires.
func VerifC20HalfBlock() {
	img := image.NewNRGBA(image.Rect(0, 0, 1, 2))
	px := zzverif.Bytes("px", 8)
	for i := range px {
		img.Pix[i] = px[i]
	}
	// every alpha level: below the threshold (50) a pixel is transparent; colours are compared
	// exactly only for fully opaque pixels (un-premultiplying a partial alpha rounds)
	topOpaque, botOpaque := px[3] == 255, px[7] == 255
	topClear, botClear := px[3] < 50, px[7] < 50
	vx := verifBareVaxis(2, 2)
	hb := vx.NewHalfBlockImage(img)
	hb.Resize(1, 1)
	w, h := hb.CellSize()
	zzverif.Assert(w == 1 && h == 1 && len(hb.cells) == 1, "one-cell")
	c := hb.cells[0]
	top, bot := RGBColor(px[0], px[1], px[2]), RGBColor(px[4], px[5], px[6])
	switch {
	case topClear && botClear:
		zzverif.Assert(c.Grapheme == " " && c.Foreground == 0 && c.Background == 0, "both-transparent-is-blank-default")
	case topClear:
		zzverif.Assert(c.Grapheme == "▄" && c.Background == 0 && c.Foreground&rgb != 0, "transparent-top-is-default")
		zzverif.Assert(!botOpaque || c.Foreground == bot, "opaque-bottom-reproduced-exactly")
	case botClear:
		zzverif.Assert(c.Grapheme == "▀" && c.Background == 0 && c.Foreground&rgb != 0, "transparent-bottom-is-default")
		zzverif.Assert(!topOpaque || c.Foreground == top, "opaque-top-reproduced-exactly")
	default:
		zzverif.Assert(c.Grapheme == "▀" && c.Foreground&rgb != 0 && c.Background&rgb != 0, "both-pixels-shown")
		zzverif.Assert(!topOpaque || c.Foreground == top, "opaque-top-reproduced-exactly")
		zzverif.Assert(!botOpaque || c.Background == bot, "opaque-bottom-reproduced-exactly")
	}
	// drawing touches only cells inside the target window
	win := vx.Window().New(1, 1, 1, 1)
	hb.Draw(win)
	ok := true
	for y := 0; y < 2; y++ {
		for x := 0; x < 2; x++ {
			changed := vx.screenNext.buf[y][x].Grapheme != ""
			ok = ok && (!changed || (x == 1 && y == 1))
		}
	}
	zzverif.Assert(ok, "draw-stays-inside-window")
	zzverif.Reach("end")
}
