package vaxis

import (
	"os"
	"strings"

	"git.sr.ht/~rockorager/vaxis/ansi"
	"git.sr.ht/~rockorager/vaxis/zzverif"
)

func verifCopyModes(m map[int]int) map[int]int {
	out := map[int]int{}
	for k, v := range m {
		out[k] = v
	}
	return out
}

func verifSameModes(a, b map[int]int) bool {
	if len(a) != len(b) {
		return false
	}
	ok := true
	for k, v := range a {
		w, present := b[k]
		ok = ok && present && v == w
	}
	return ok
}

// verifRestored: the terminal is back at the state of a terminal that has just launched a
// program: every DEC private mode that was touched is reset, cursor visible with the user's
// shape, primary screen, numeric keypad, kitty keyboard stack empty, default pen, no link,
// application id and pointer shape as found.
func verifRestored(t *refTerm, vx *Vaxis, tag string) {
	zzverif.Assert(t.bad == "", tag+":only-known-vocabulary")
	allReset := true
	for m, v := range t.modes {
		if m == 25 {
			continue
		}
		allReset = allReset && v == 0
	}
	zzverif.Assert(allReset, tag+":every-mode-reset")
	zzverif.Assert(t.visible == 1, tag+":cursor-visible")
	zzverif.Assert(!t.altScreen, tag+":primary-screen")
	zzverif.Assert(t.keypadApp != 1, tag+":numeric-keypad")
	zzverif.Assert(t.kittyDepth == [2]int{} && !t.kittyUnderflow, tag+":kitty-keyboard-stacks-of-both-screens-as-found")
	zzverif.Assert(verifStyleEq(t.pen, Style{}), tag+":pen-reset-and-link-closed")
	zzverif.Assert(t.syncDepth == 0, tag+":synchronized-update-balanced")
	zzverif.Assert(t.shape == int(vx.userCursorStyle), tag+":cursor-shape-restored")
	zzverif.Assert(t.pointer == "" || t.pointer == "text" || t.pointer == "default", tag+":pointer-shape-restored")
	if vx.caps.osc176 {
		zzverif.Assert(t.appID == verifOrigAppID || t.appID == "" && !verifAppIDTouched, tag+":application-id-restored")
	}
}

// the terminal's original application id of the running path, and whether the application
// changed it
var (
	verifOrigAppID    = "app"
	verifAppIDTouched bool
)

// VerifC04Session: start-up (the mode-setting tail of New), an optional frame with cursor and
// pointer-shape changes, 0-2 Suspend/Resume cycles and Close (twice), for every capability
// set: after Suspend and after Close the reference terminal's state is restored; Resume
// re-establishes exactly the modes start-up established; a second Close writes nothing.
func VerifC04Session() {
	vx, con := verifRenderVaxis(3, 2)
	vx.withConsole = con
	vx.queue = make(chan Event, 64)
	vx.chQuit = make(chan bool)
	vx.chSigKill = make(chan os.Signal, 1)
	vx.chSigWinSz = make(chan os.Signal, 1)
	// history=0: every capability flag free, short frame history; history=1: every capability
	// advertised, longer frame histories (second frame, application id)
	history := zzverif.Param("history") == 1
	capv := func(name string) bool { return history || zzverif.Bool(name) }
	vx.caps.kittyKeyboard = capv("cap.kitty")
	vx.caps.sixels = capv("cap.sixels")
	vx.caps.kittyGraphics = capv("cap.kittyGraphics")
	vx.caps.unicodeCore = capv("cap.unicodeCore")
	vx.caps.explicitWidth = capv("cap.explicitWidth")
	vx.caps.colorThemeUpdates = capv("cap.colorTheme")
	vx.caps.inBandResize = capv("cap.inBandResize")
	vx.caps.osc176 = capv("cap.osc176")
	vx.caps.synchronizedUpdate = capv("cap.sync")
	vx.disableMouse = zzverif.Bool("disableMouse")
	vx.kittyFlags = 1
	vx.userCursorStyle = CursorStyle(zzverif.Choose("userCursorStyle", 2) * 4)
	// the terminal's own application id, as reported to start-up: a name or empty
	verifOrigAppID, verifAppIDTouched = "app", false
	if history && zzverif.Bool("origAppIDEmpty") {
		verifOrigAppID = ""
	}
	vx.appIDLast = appID(verifOrigAppID)
	vx.termID = terminalID([]string{"", "tmux 3.4", "kitty 0.35"}[zzverif.Choose("termID", 3)])
	t := newRefTerm(3, 2)
	t.visible = 1
	t.shape = int(vx.userCursorStyle)

	// the mode-setting tail of New(), in New()'s order
	vx.applyQuirks()
	vx.enterAltScreen()
	vx.enableModes()
	t.feed(con.take())
	zzverif.Assert(t.bad == "", "startup:only-known-vocabulary")
	started := verifCopyModes(t.modes)
	startedKitty, startedKeypad := t.kittyDepth, t.keypadApp

	if zzverif.Bool("frame") {
		win := vx.Window()
		win.SetCell(0, 0, Cell{Character: Character{Grapheme: "a", Width: 1}, Style: Style{Attribute: AttrBold, Hyperlink: "http://a"}})
		shown := zzverif.Bool("showCursor")
		if shown {
			vx.ShowCursor(1, 1, CursorBeam)
		}
		pointer := zzverif.Bool("pointer")
		if pointer {
			vx.SetMouseShape(MouseShapeClickable)
		}
		vx.Render()
		t.feed(con.take())
		if history && shown && zzverif.Bool("secondFrame") {
			// a later frame asks for the user's own cursor style and hides the cursor: the
			// terminal still carries the beam of the first frame
			vx.ShowCursor(0, 0, vx.userCursorStyle)
			vx.HideCursor()
			vx.Render()
			t.feed(con.take())
		}
		if history && zzverif.Bool("setAppID") {
			vx.SetAppID("mine")
			verifAppIDTouched = true
			t.feed(con.take())
		}
		// a shape requested after the last frame (never rendered) must not confuse shutdown
		if pointer {
			switch zzverif.Choose("pointerAfterFrame", 3) {
			case 1:
				vx.SetMouseShape(MouseShapeTextInput)
			case 2:
				vx.SetMouseShape(MouseShapeDefault)
			}
		}
	}
	cycles := zzverif.Choose("cycles", 1+zzverif.Param("maxcycles"))
	for i := 0; i < cycles; i++ {
		vx.parser = ansi.NewParser(strings.NewReader(""))
		vx.Suspend()
		t.feed(con.take())
		verifRestored(t, vx, "suspend")
		vx.Resume()
		t.feed(con.take())
		zzverif.Assert(verifSameModes(t.modes, started) && t.kittyDepth == startedKitty && t.keypadApp == startedKeypad && t.altScreen,
			"resume-re-establishes-startup-modes")
	}
	if cycles == 0 {
		vx.parser = ansi.NewParser(strings.NewReader(""))
	}
	vx.Close()
	t.feed(con.take())
	verifRestored(t, vx, "close")
	vx.Close()
	zzverif.Assert(len(con.take()) == 0, "second-close-writes-nothing")
	zzverif.Reach("end")
}
