package vaxis

import (
	"strings"

	"git.sr.ht/~rockorager/vaxis/zzverif"
	"github.com/rivo/uniseg"
)

var verifTextSamples = []string{"", "a", "abc", "abcde", "ab\ncd", "a世b", "ab世cd", "世世世", "éa", "a\tb", "x\n\ny", "ab cd ef", "((世界", "世。。", "a(世", "e\u0301a", "ae\u0301"}

type verifPlaced struct {
	g        string
	col, row int
}

// verifPlaceModel is the placement rule of the property: clusters left to right, advance by
// display width, a new row at a line break or when the row is full, nothing beyond the last
// row.
// verifClusters splits text into grapheme clusters with their display widths, independently
// of the library's Characters (uniseg's cluster iterator; a tab stands for 8 blanks as the
// library documents).
func verifClusters(text string) (out []Character) {
	gr := uniseg.NewGraphemes(text)
	for gr.Next() {
		if gr.Str() == "\t" {
			for i := 0; i < 8; i++ {
				out = append(out, Character{" ", 1})
			}
			continue
		}
		out = append(out, Character{gr.Str(), gr.Width()})
	}
	return
}

func verifPlaceModel(text string, cols, rows int) (out []verifPlaced, col, row int) {
	for _, ch := range verifClusters(text) {
		if ch.Grapheme == "\n" {
			col, row = 0, row+1
			continue
		}
		w := ch.Width
		if col > 0 && col+w > cols { // a cluster that does not fit in the rest of the row starts a new one
			col, row = 0, row+1
		}
		if row < rows && col < cols {
			out = append(out, verifPlaced{ch.Grapheme, col, row})
		}
		col += w
		if col >= cols {
			row, col = row+1, 0
		}
	}
	return
}

// VerifC11Print: Window.Print / PrintTruncate / Wrap of a text from a list into a window of free
// size and offset on a 5x4 screen: only cells of the window change; Print places exactly the
// clusters the placement rule places, each whole in one cell, and returns the rule's final
// position; PrintTruncate writes one row only and ends in an ellipsis when the text does not
// fit; Wrap keeps reading order.
func VerifC11Print() {
	const W, H = 5, 4
	vx := verifBareVaxis(W, H)
	text := verifTextSamples[zzverif.Choose("text", len(verifTextSamples))]
	ox, oy := zzverif.Choose("ox", 2), zzverif.Choose("oy", 2)
	cols, rows := int(zzverif.Byte("cols")), int(zzverif.Byte("rows"))
	zzverif.Assume(cols >= 1 && cols <= 4 && rows >= 1 && rows <= 3)
	win := vx.Window().New(ox, oy, cols, rows)
	cols, rows = win.Size()
	op := zzverif.Choose("op", 4)
	zzverif.Terminates(3000)
	var rcol, rrow int
	// the text arrives as one segment or split into two at a free cluster boundary
	segs := []Segment{{Text: text}}
	if chars := Characters(text); len(chars) > 1 && !strings.Contains(text, "\t") && zzverif.Bool("twoSegments") {
		k := 1 + zzverif.Choose("split", 2)
		if k >= len(chars) {
			k = len(chars) - 1
		}
		first := ""
		for _, c := range chars[:k] {
			first += c.Grapheme
		}
		segs = []Segment{{Text: first}, {Text: text[len(first):], Style: Style{Attribute: AttrBold}}}
	}
	switch op {
	case 0:
		rcol, rrow = win.Print(segs...)
	case 1:
		win.PrintTruncate(0, segs...)
	case 2:
		rcol, rrow = win.Wrap(segs...)
	case 3:
		win.Println(0, segs...)
	}
	inside := true
	whole := true
	for y := 0; y < H; y++ {
		for x := 0; x < W; x++ {
			changed := vx.screenNext.buf[y][x].Grapheme != ""
			in := x >= ox && x < ox+cols && y >= oy && y < oy+rows
			inside = inside && (!changed || in)
			// a cluster occupies Width columns on the display: all of them lie in the window
			// (a cluster wider than the whole window cannot satisfy this and is excepted)
			cw := vx.screenNext.buf[y][x].Width
			whole = whole && (!changed || cw > cols || x+cw <= ox+cols)
		}
	}
	zzverif.Assert(inside, "text-stays-inside-window")
	zzverif.Assert(whole, "no-cluster-straddles-the-window-edge")
	switch op {
	case 0:
		want, wc, wr := verifPlaceModel(text, cols, rows)
		ok := true
		for _, p := range want {
			ok = ok && vx.screenNext.buf[oy+p.row][ox+p.col].Grapheme == p.g
		}
		zzverif.Assert(ok, "print-places-every-cluster-by-the-rule")
		if wr <= rows { // once the text overflows the window Print may stop early
			zzverif.Assert(rcol == wc && rrow == wr, "print-returns-the-final-position")
		}
	case 1, 3:
		rowOnly := true
		for y := 1; y < rows; y++ {
			for x := 0; x < cols; x++ {
				rowOnly = rowOnly && vx.screenNext.buf[oy+y][ox+x].Grapheme == ""
			}
		}
		zzverif.Assert(rowOnly, "truncate-and-println-write-one-row")
		if op == 3 && !strings.Contains(text, "\n") {
			// Println (documented for a single line of text): the longest prefix that fits,
			// left to right
			col, ok := 0, true
			for _, ch := range verifClusters(text) {
				if ch.Grapheme == "\n" || col+ch.Width > cols {
					break
				}
				ok = ok && vx.screenNext.buf[oy][ox+col].Grapheme == ch.Grapheme
				col += ch.Width
			}
			for ; col < cols; col++ {
				ok = ok && vx.screenNext.buf[oy][ox+col].Grapheme == ""
			}
			zzverif.Assert(ok, "println-places-the-fitting-prefix")
		}
	case 2:
		// reading order: the graphemes on the screen, row by row, are a subsequence of the
		// text's non-break clusters in order
		var src []string
		for _, ch := range verifClusters(text) {
			if ch.Grapheme != "\n" {
				src = append(src, ch.Grapheme)
			}
		}
		i := 0
		ordered := true
		for y := 0; y < rows; y++ {
			for x := 0; x < cols; x++ {
				g := vx.screenNext.buf[oy+y][ox+x].Grapheme
				if g == "" {
					continue
				}
				for i < len(src) && src[i] != g {
					i++
				}
				ordered = ordered && i < len(src)
				i++
			}
		}
		zzverif.Assert(ordered, "wrap-keeps-reading-order")
		zzverif.Assert(rcol >= 0 && rcol < cols && rrow >= 0, "wrap-returns-a-position-in-the-window-columns")
	}
	zzverif.Reach("end")
}
