package vaxis

import (
	"fmt"
	"io"
	"os"
	"os/signal"
	"strings"
	"syscall"
	"time"

	"github.com/containerd/console"

	"git.sr.ht/~rockorager/vaxis/zzverif"
)

// verifTerm is a fake terminal behind the console interface: what Vaxis writes is logged,
// and every start-up query it recognises is answered according to the feature set `has`
// (a reply Vaxis reads as "supported" exactly for the features in the set; unsupported
// features are answered "not recognised" or not at all, as real terminals do).
type verifTerm struct {
	log     []byte
	in      chan []byte
	pending []byte
	has     map[string]bool
	closed  bool
	style   int // the user's cursor style, reported to DECRQSS
}

func (t *verifTerm) Read(p []byte) (int, error) {
	if len(t.pending) == 0 {
		b, ok := <-t.in
		if !ok {
			return 0, io.EOF
		}
		t.pending = b
	}
	n := copy(p, t.pending)
	t.pending = t.pending[n:]
	return n, nil
}

func (t *verifTerm) reply(s string) {
	if s != "" && !t.closed {
		t.in <- []byte(s)
	}
}

func (t *verifTerm) Write(p []byte) (int, error) {
	t.log = append(t.log, p...)
	s := string(p)
	var out strings.Builder
	mode := func(m int, feature string) {
		if strings.Contains(s, decrqm(m)) {
			st := 0
			if t.has[feature] {
				st = 2
			} else if t.has["reports-unknown-modes-as-permanently-reset"] {
				st = 4
			}
			fmt.Fprintf(&out, "\x1b[?%d;%d$y", m, st)
		}
	}
	mode(synchronizedUpdate, "sync")
	mode(unicodeCore, "unicodeCore")
	mode(colorThemeUpdates, "colorTheme")
	if strings.Contains(s, decset(inBandResize)) && t.has["inBandResize"] {
		out.WriteString("\x1b[48;3;4;30;40t")
	}
	if strings.Contains(s, xtversion) && t.has["xtversion"] {
		out.WriteString("\x1bP>|verifterm 1.0\x1b\\")
	}
	if strings.Contains(s, kittyKBQuery) && t.has["kittyKeyboard"] {
		out.WriteString("\x1b[?0u")
	}
	if strings.Contains(s, kittyGquery) && t.has["kittyGraphics"] {
		out.WriteString("\x1b_Gi=1;OK\x1b\\")
	}
	if strings.Contains(s, xtsmSixelGeom) && t.has["sixelGeometry"] {
		out.WriteString("\x1b[?2;0;100;100S")
	}
	if strings.Contains(s, textAreaSize) && t.has["sizeReports"] {
		out.WriteString("\x1b[4;30;40t\x1b[8;3;4t")
	}
	if strings.Contains(s, userCursorStyle) {
		fmt.Fprintf(&out, "\x1bP1$r%d q\x1b\\", t.style)
	}
	if strings.Contains(s, dsrcpr) {
		// the explicit-width probe printed one cell if (and only if) OSC 66 is implemented
		col := 1
		if t.has["explicitWidth"] {
			col = 2
		}
		fmt.Fprintf(&out, "\x1b[1;%dR", col)
	}
	if strings.Contains(s, xtgettcap("RGB")) {
		if t.has["rgb"] {
			out.WriteString("\x1bP1+r524742\x1b\\")
		} else {
			out.WriteString("\x1bP0+r\x1b\\")
		}
	}
	if strings.Contains(s, tparm(osc4, 1)) && t.has["osc4"] {
		out.WriteString("\x1b]4;1;rgb:00/00/00\x1b\\")
	}
	if strings.Contains(s, osc10) && t.has["osc10"] {
		out.WriteString("\x1b]10;rgb:00/00/00\x07")
	}
	if strings.Contains(s, osc11) && t.has["osc11"] {
		out.WriteString("\x1b]11;rgb:00/00/00\x07")
	}
	if strings.Contains(s, getAppID) && t.has["osc176"] {
		out.WriteString("\x1b]176;app\x1b\\")
	}
	if strings.Contains(s, xtgettcap("Smulx")) {
		if t.has["styledUnderlines"] {
			out.WriteString("\x1bP1+r536D756C78=5C455B343A25703125646D\x1b\\")
		} else {
			out.WriteString("\x1bP0+r\x1b\\")
		}
	}
	if strings.Contains(s, primaryAttributes) {
		if t.has["sixel"] {
			out.WriteString("\x1b[?62;4;22c")
		} else {
			out.WriteString("\x1b[?62;22c")
		}
	}
	t.reply(out.String())
	return len(p), nil
}

func (t *verifTerm) Close() error {
	if !t.closed {
		t.closed = true
		close(t.in)
	}
	return nil
}
func (t *verifTerm) Fd() uintptr                      { return 0 }
func (t *verifTerm) Name() string                     { return "verifterm" }
func (t *verifTerm) Resize(console.WinSize) error     { return nil }
func (t *verifTerm) ResizeFrom(console.Console) error { return nil }
func (t *verifTerm) SetRaw() error                    { return nil }
func (t *verifTerm) DisableEcho() error               { return nil }
func (t *verifTerm) Reset() error                     { return nil }
func (t *verifTerm) Size() (console.WinSize, error) {
	return console.WinSize{Height: 3, Width: 4}, nil
}

var verifFeatures = []string{"sync", "unicodeCore", "colorTheme", "inBandResize", "kittyKeyboard", "kittyGraphics",
	"sixel", "explicitWidth", "rgb", "styledUnderlines", "osc4", "osc10", "osc11", "osc176", "sizeReports"}

// VerifC07Startup: the real New() against a fake terminal whose feature set is free (each of
// 15 advertisable features present or not; unknown modes answered as "not recognised" or as
// "permanently reset"): the capabilities Vaxis ends up with are exactly those the replies
// established, New returns (the DA1 reply ends collection), and Close restores the terminal.
func VerifC07Startup() {
	t := &verifTerm{in: make(chan []byte, 16), has: map[string]bool{}}
	// group 0: every feature free; group 1: the first 8 free, the others absent; group 2: the
	// last 7 free, the others present; group 3: in-band resize, kitty keyboard and size
	// reports free, the others absent
	group := zzverif.Param("group")
	for i, f := range verifFeatures {
		switch {
		case group == 0 || group == 1 && i < 8 || group == 2 && i >= 8 || group == 3 && (f == "inBandResize" || f == "kittyKeyboard" || f == "sizeReports"):
			t.has[f] = zzverif.Bool("has." + f)
		default:
			t.has[f] = group == 2
		}
	}
	t.has["reports-unknown-modes-as-permanently-reset"] = zzverif.Bool("unknownModesPermanentlyReset")
	t.has["xtversion"] = true
	t.style = zzverif.Choose("userCursorStyle", 7)
	// signals=1: New installs its signal handlers; the harness is registered for SIGTERM as
	// well, so that delivering it does not terminate the process
	withSignals := zzverif.Param("signals") == 1
	own := make(chan os.Signal, 1)
	if withSignals {
		signal.Notify(own, syscall.SIGTERM)
	}
	zzverif.Terminates(200000)
	vx, err := New(Options{WithConsole: t, NoSignals: !withSignals})
	zzverif.Assert(err == nil && vx != nil, "new-returns")
	if err != nil || vx == nil {
		return
	}
	c := vx.caps
	zzverif.Assert(c.synchronizedUpdate == t.has["sync"], "cap:synchronized-output")
	zzverif.Assert(c.unicodeCore == t.has["unicodeCore"], "cap:unicode-core")
	zzverif.Assert(c.colorThemeUpdates == t.has["colorTheme"], "cap:colour-scheme-updates")
	zzverif.Assert(c.inBandResize == t.has["inBandResize"], "cap:in-band-resize")
	zzverif.Assert(c.kittyKeyboard == t.has["kittyKeyboard"], "cap:kitty-keyboard")
	zzverif.Assert(c.kittyGraphics == t.has["kittyGraphics"], "cap:kitty-graphics")
	zzverif.Assert(c.sixels == t.has["sixel"], "cap:sixel")
	zzverif.Assert(c.explicitWidth == t.has["explicitWidth"], "cap:explicit-width")
	zzverif.Assert(c.rgb == t.has["rgb"], "cap:rgb")
	zzverif.Assert(c.styledUnderlines == t.has["styledUnderlines"], "cap:styled-underlines")
	zzverif.Assert(c.osc4 == t.has["osc4"] && c.osc10 == t.has["osc10"] && c.osc11 == t.has["osc11"], "cap:colour-queries")
	zzverif.Assert(c.osc176 == t.has["osc176"], "cap:application-id")
	zzverif.Assert(c.reportSizeChars == t.has["sizeReports"] && c.reportSizePixels == t.has["sizeReports"], "cap:size-reports")
	zzverif.Assert(vx.CanKittyGraphics() == t.has["kittyGraphics"] && vx.CanSixel() == t.has["sixel"], "reported-graphics-capabilities")
	zzverif.Assert(int(vx.userCursorStyle) == t.style, "user-cursor-style-as-reported")
	zzverif.Reach("started")
	if withSignals {
		// a termination signal arrives: the library shuts the session down by itself
		zzverif.DeliverSignal(int(syscall.SIGTERM))
		reacted := false
		select {
		case <-vx.chQuit:
			reacted = true
		case <-time.After(500 * time.Millisecond):
		}
		zzverif.Assert(reacted, "termination-signal-shuts-the-session-down")
		signal.Stop(own)
	}
	vx.Close()
	// the whole session, from the first query to Close, leaves the terminal as found (C04)
	rt := newRefTerm(4, 3)
	rt.visible = 1
	rt.shape = t.style
	// Vaxis enables in-band resize blindly as its query; a terminal without it ignores that
	rt.unimplemented = map[int]bool{2048: !t.has["inBandResize"]}
	rt.feed(t.log)
	verifRestored(rt, vx, "session")
	// over the whole session (queries excepted, which are how features are discovered) only
	// advertised features were used: sixel scrolling, kitty keyboard, Unicode core,
	// colour-scheme updates, synchronized output
	gated := true
	for tag := range rt.tags {
		switch tag {
		case "sixels":
			gated = gated && t.has["sixel"]
		case "kittyKeyboard":
			gated = gated && t.has["kittyKeyboard"]
		case "unicodeCore":
			gated = gated && t.has["unicodeCore"]
		case "colorThemeUpdates":
			gated = gated && t.has["colorTheme"]
		case "synchronizedUpdate":
			gated = gated && t.has["sync"]
		}
	}
	zzverif.Assert(gated, "session:only-advertised-features-used")
	zzverif.Assert(rt.shape == t.style, "session:cursor-shape-back-at-the-user's")
	zzverif.Reach("end")
}
