// Package zzverif is the harness API. Under the symbolic engine (symgo) every call is
// intercepted and the bodies below never run. Compiled natively, the inputs come from the
// replay file named by VERIF_REPLAY, so that a solver model can be re-run against the real
// build.
package zzverif

import (
	"encoding/json"
	"fmt"
	"math/big"
	"os"
	"reflect"
	"runtime"
	"strings"
	"syscall"
	"time"
)

type replayCase struct {
	Harness string            `json:"harness"`
	Inputs  map[string]string `json:"inputs"`
	Params  map[string]int    `json:"params"`
}

var (
	cur    replayCase
	counts = map[string]int{}
)

func val(name string, bits uint) uint64 {
	n := counts[name]
	counts[name] = n + 1
	full := name
	if n > 0 {
		full = fmt.Sprintf("%s#%d", name, n)
	}
	s, ok := cur.Inputs[full]
	if !ok {
		return 0
	}
	z, ok := new(big.Int).SetString(s, 10)
	if !ok {
		fmt.Printf("VERIF-ERROR bad input %s=%q\n", full, s)
		os.Exit(5)
	}
	if z.Sign() < 0 {
		z.Add(z, new(big.Int).Lsh(big.NewInt(1), 64))
	}
	v := z.Uint64()
	if bits < 64 {
		v &= (1 << bits) - 1
	}
	return v
}

func Int(name string) int       { return int(val(name, 64)) }
func Int64(name string) int64   { return int64(val(name, 64)) }
func Uint64(name string) uint64 { return val(name, 64) }
func Uint32(name string) uint32 { return uint32(val(name, 32)) }
func Int32(name string) int32   { return int32(val(name, 32)) }
func Rune(name string) rune     { return rune(val(name, 32)) }
func Uint16(name string) uint16 { return uint16(val(name, 16)) }
func Uint8(name string) uint8   { return uint8(val(name, 8)) }
func Byte(name string) byte     { return byte(val(name, 8)) }
func Bool(name string) bool     { return val(name, 1) != 0 }

func Bytes(name string, n int) []byte {
	b := make([]byte, n)
	for i := range b {
		b[i] = byte(val(fmt.Sprintf("%s[%d]", name, i), 8))
	}
	return b
}

func String(name string, n int) string { return string(Bytes(name, n)) }

// Choose returns a value in [0,n); the engine explores every value.
func Choose(name string, n int) int {
	v := int(val(name, 64))
	if v < 0 || v >= n {
		fmt.Println("VERIF-ASSUME-FAILED choose " + name)
		os.Exit(3)
	}
	return v
}

// Param is a concrete bound taken from the registry for the running tier.
func Param(name string) int {
	v, ok := cur.Params[name]
	if !ok {
		fmt.Println("VERIF-ERROR missing param " + name)
		os.Exit(5)
	}
	return v
}

func Assume(c bool) {
	if !c {
		fmt.Println("VERIF-ASSUME-FAILED")
		os.Exit(3)
	}
}

func Assert(c bool, label string) {
	if !c {
		fmt.Println("VERIF-ASSERT-FAILED " + label)
		os.Exit(4)
	}
}

// Known declares the region (over the harness's own inputs) of a listed known finding.
func Known(id string, region bool) {}

func Reach(label string) {}

func Observe(label string, v any) { fmt.Printf("OBS %s=%v\n", label, v) }

// Terminates states a loop-iteration budget for the rest of the path; natively the replay
// runner enforces a wall-clock timeout instead.
func Terminates(budget int) {}

// FuncName identifies a func value (top-level function or method value).
func FuncName(f any) string {
	if f == nil {
		return ""
	}
	rv := reflect.ValueOf(f)
	if rv.Kind() != reflect.Func || rv.IsNil() {
		return ""
	}
	n := runtime.FuncForPC(rv.Pointer()).Name()
	n = strings.TrimSuffix(n, "-fm")
	// runtime: pkg.(*T).m ; engine: (*pkg.T).m  -> normalise to the runtime form's tail
	return n
}

// Symbolic reports whether the harness runs under the symbolic engine.
func Symbolic() bool { return false }

func Setenv(k, v string) { os.Setenv(k, v) }

// NewFile returns a writable *os.File whose content FileLog can read back.
func NewFile() *os.File {
	f, err := os.CreateTemp("", "zzverif")
	if err != nil {
		panic(err)
	}
	os.Remove(f.Name())
	return f
}

func FileLog(f *os.File) []byte {
	if f == nil {
		return nil
	}
	st, err := f.Stat()
	if err != nil {
		return nil
	}
	b := make([]byte, st.Size())
	f.ReadAt(b, 0)
	return b
}

// PendingTimers reports how many timers are armed (engine only; natively unknown = 1).
func PendingTimers() int { return 1 }

// FireTimer lets the i-th pending timer fire. Natively the real timers (all far below 50 ms
// in this library) are given time to fire.
func FireTimer(i int) { time.Sleep(50 * time.Millisecond) }

// Run is the entry point of the generated TestVerifReplay.
func Run(harnesses map[string]func()) {
	path := os.Getenv("VERIF_REPLAY")
	if path == "" {
		fmt.Println("VERIF-ERROR VERIF_REPLAY not set")
		os.Exit(5)
	}
	b, err := os.ReadFile(path)
	if err != nil {
		fmt.Println("VERIF-ERROR " + err.Error())
		os.Exit(5)
	}
	if err := json.Unmarshal(b, &cur); err != nil {
		fmt.Println("VERIF-ERROR " + err.Error())
		os.Exit(5)
	}
	h, ok := harnesses[cur.Harness]
	if !ok {
		fmt.Println("VERIF-ERROR unknown harness " + cur.Harness)
		os.Exit(5)
	}
	h()
	fmt.Println("VERIF-PASS")
	os.Exit(0)
}

// IntByte is Byte, but the engine's solver variable is a mathematical integer in [0,255]
// (keeps real/integer arithmetic harnesses out of the bit-vector theory).
func IntByte(name string) byte { return byte(val(name, 8)) }

// Concrete returns x; under the engine it case-splits into one path per feasible value of x
// (for oracles whose arithmetic would otherwise multiply two symbolic values).
func Concrete(x int) int { return x }

// LetTimePass lets every armed timer fire (engine: the recorded callbacks run in arming
// order; natively: sleep long enough for the library's real timers, all <= 10 ms here).
func LetTimePass() { time.Sleep(60 * time.Millisecond) }

// DeliverSignal sends signal number n to this process (engine: to every channel registered
// for it with os/signal.Notify). The harness must itself be registered for the signal, so
// that the default action (process termination) does not apply.
func DeliverSignal(n int) { syscall.Kill(os.Getpid(), syscall.Signal(n)) }
