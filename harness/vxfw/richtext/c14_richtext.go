package richtext

import (
	"git.sr.ht/~rockorager/vaxis"
	"git.sr.ht/~rockorager/vaxis/vxfw"
	"git.sr.ht/~rockorager/vaxis/zzverif"
)

var verifContents = []string{"", "a", "ab\ncd\nef", "世界", "abcdef", "a\n\nb\n", "x\ny\nz\nw"}

func verifCells(s string) []vaxis.Cell {
	var cells []vaxis.Cell
	for _, ch := range vaxis.Characters(s) {
		cells = append(cells, vaxis.Cell{Character: ch})
	}
	return cells
}

// VerifC14RichTextSize: as VerifC14TextSize for RichText (hard-wrapped).
func VerifC14RichTextSize() {
	t := &RichText{Softwrap: zzverif.Param("softwrap") != 0}
	cells := verifCells(verifContents[zzverif.Choose("content", len(verifContents))])
	ctx := vxfw.DrawContext{
		Max:        vxfw.Size{Width: zzverif.Uint16("maxw"), Height: zzverif.Uint16("maxh")},
		Characters: vaxis.Characters,
	}
	size := t.findContainerSize(cells, ctx)
	zzverif.Assert(size.Width <= ctx.Max.Width, "richtext-width-within-max")
	zzverif.Assert(size.Height <= ctx.Max.Height, "richtext-height-within-max")
	zzverif.Reach("end")
}
