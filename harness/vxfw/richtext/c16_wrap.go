package richtext

import (
	"strings"
	"unicode"

	"git.sr.ht/~rockorager/vaxis"
	"git.sr.ht/~rockorager/vaxis/vxfw"
	"git.sr.ht/~rockorager/vaxis/zzverif"
	"github.com/rivo/uniseg"
)

var verifWrapTexts = []string{
	"", "a", "ab cd", "abc def gh", "a-b c", "ab\ncd", "ab \n cd", "abcdefgh", "a  b", " ab", "ab ",
	"世界 ab", "ab世界cd", "é éx", "a b c d e f", "ab\n\ncd", "abcd ef", "x\n", "a foo\n\nbar", "x foo\n bar", "a b\n\nc", "ab c\n\n\nd",
}

// verifWrapAlphabet: letters, a space, a hyphen, a newline, a wide and a combining grapheme.
var verifWrapAlphabet = []string{"a", "b", " ", "-", "\n", "世", "e\u0301"}

// verifWrapText picks the text: with parameter len == 0 one of the listed texts, otherwise
// every text of exactly len graphemes over the alphabet (one free choice per position).
func verifWrapText() string {
	n := zzverif.Param("len")
	if n == 0 {
		return verifWrapTexts[zzverif.Choose("text", len(verifWrapTexts))]
	}
	text := ""
	for i := 0; i < n; i++ {
		text += verifWrapAlphabet[zzverif.Choose("g", len(verifWrapAlphabet))]
	}
	return text
}

func verifIsSpaceG(g string) bool {
	for _, r := range g {
		if !unicode.IsSpace(r) {
			return false
		}
	}
	return true
}

func verifIsLetterG(g string) bool {
	for _, r := range g {
		return unicode.IsLetter(r)
	}
	return false
}

// verifWrapCheck checks the emitted lines against the property for one text and width.
func verifWrapCheck(text string, lines []string, width int, tag string) {
	chars := vaxis.Characters
	// (1) width: ignoring trailing whitespace a line fits, unless it is a single grapheme
	fits := true
	for _, l := range lines {
		cs := chars(strings.TrimRightFunc(l, unicode.IsSpace))
		w := 0
		for _, c := range cs {
			w += c.Width
		}
		fits = fits && (w <= width || len(cs) == 1)
	}
	zzverif.Assert(fits, tag+":line-fits-width")
	// (2) conservation: the non-whitespace graphemes of the lines are those of the text, in order
	var want, got []string
	for _, c := range chars(text) {
		if !verifIsSpaceG(c.Grapheme) {
			want = append(want, c.Grapheme)
		}
	}
	lineOf := []int{}
	for li, l := range lines {
		for _, c := range chars(l) {
			if !verifIsSpaceG(c.Grapheme) {
				got = append(got, c.Grapheme)
				lineOf = append(lineOf, li)
			}
		}
	}
	same := len(want) == len(got)
	for i := 0; same && i < len(want); i++ {
		same = want[i] == got[i]
	}
	zzverif.Assert(same, tag+":nothing-but-whitespace-lost")
	if !same {
		return
	}
	// (3) a run of (narrow) letters that fits on a line of its own is not split; (4) a hard
	// break ends the line: graphemes on either side of a newline are on different lines.
	// For (3) the runs are classified by the unbreakable line segment (UAX #14, computed by
	// uniseg on the whole text) that contains them: a split run whose whole segment fits is
	// asserted separately from one whose segment (letters glued to hyphens ...) is wider
	// than the line and has to be broken somewhere (known finding C16-long-segment-run-split).
	var segW []int // per non-space grapheme: width of its segment without trailing space
	{
		rest, state, seg := text, -1, ""
		for len(rest) > 0 {
			seg, rest, _, state = uniseg.FirstLineSegmentInString(rest, state)
			w := 0
			for _, c := range chars(strings.TrimRightFunc(seg, unicode.IsSpace)) {
				w += c.Width
			}
			for _, c := range chars(seg) {
				if !verifIsSpaceG(c.Grapheme) {
					segW = append(segW, w)
				}
			}
		}
	}
	idx := 0
	runStart, runW := -1, 0
	splitInFittingSeg, splitInLongSeg, hard := false, false, true
	prevIdxBeforeBreak := -1
	flush := func(end int) {
		if runStart >= 0 && runW <= width && lineOf[runStart] != lineOf[end-1] {
			if runStart < len(segW) && segW[runStart] > width {
				splitInLongSeg = true
			} else {
				splitInFittingSeg = true
			}
		}
		runStart, runW = -1, 0
	}
	for _, c := range chars(text) {
		if c.Grapheme == "\n" {
			flush(idx)
			prevIdxBeforeBreak = idx - 1
			continue
		}
		if verifIsSpaceG(c.Grapheme) {
			flush(idx)
			continue
		}
		if prevIdxBeforeBreak >= 0 {
			hard = hard && lineOf[prevIdxBeforeBreak] != lineOf[idx]
			prevIdxBeforeBreak = -1
		}
		// A wide (ideographic) grapheme is a line-break opportunity on both sides (UAX #14):
		// it is not part of a "run of letters".
		if verifIsLetterG(c.Grapheme) && c.Width == 1 {
			if runStart < 0 {
				runStart = idx
			}
			runW += c.Width
		} else {
			flush(idx)
		}
		idx++
	}
	flush(idx)
	zzverif.Assert(!splitInFittingSeg, tag+":fitting-words-not-split")
	zzverif.Known("C16-long-segment-run-split", splitInLongSeg)
	zzverif.Assert(!splitInLongSeg, tag+":fitting-letter-runs-not-split")
	zzverif.Assert(hard, tag+":hard-break-ends-the-line")
}

// VerifC16Rich: the rich-text soft-wrap scanner on a styled text from a list (each cell
// carries its index as style so that styles can be followed) with a free width.
func VerifC16Rich() {
	text := verifWrapText()
	width := zzverif.Uint16("width")
	zzverif.Assume(width >= 1)
	var cells []vaxis.Cell
	for i, ch := range vaxis.Characters(text) {
		cells = append(cells, vaxis.Cell{Character: ch, Style: vaxis.Style{Foreground: vaxis.IndexColor(uint8(i))}})
	}
	sc := NewSoftwrapScanner(cells, width)
	var lines []string
	var lc [][]vaxis.Character
	styleOK := true
	next := 0
	zzverif.Terminates(60000)
	for n := 0; sc.Scan(); n++ {
		l := ""
		for _, c := range sc.Text() {
			l += c.Grapheme
			if !verifIsSpaceG(c.Grapheme) {
				// styles travel with their graphemes: indices strictly increase
				idx := int(uint8(c.Foreground))
				styleOK = styleOK && idx >= next && idx < len(cells) && cells[idx].Grapheme == c.Grapheme
				next = idx + 1
			}
		}
		lines = append(lines, l)
		var lcs []vaxis.Character
		for _, c := range sc.Text() {
			lcs = append(lcs, c.Character)
		}
		lc = append(lc, lcs)
		zzverif.Assert(n < 4*len(text)+4, "scanner-terminates")
	}
	zzverif.Assert(styleOK, "rich:styles-stay-with-their-graphemes")
	verifWrapCheck(text, lines, int(width), "rich")
	// the widget draws exactly the emitted lines, one per row
	var segs []vaxis.Segment
	for _, c := range cells {
		segs = append(segs, vaxis.Segment{Text: c.Grapheme, Style: c.Style})
	}
	ctx := vxfw.DrawContext{Max: vxfw.Size{Width: width, Height: 40}, Characters: vaxis.Characters}
	surf, err := New(segs).Draw(ctx)
	zzverif.Assert(err == nil, "rich:draw-succeeds")
	verifDrawnRows(surf, lc, int(width), 40, "rich")
	zzverif.Reach("end")
}

// verifDrawnRows: the surface holds exactly the given lines, one per row from the top, each
// from column 0 (cells beyond the surface width are clipped), and is as high as the number
// of lines (at most maxH) and as wide as the widest line (at most maxW).
func verifDrawnRows(s vxfw.Surface, lines [][]vaxis.Character, maxW, maxH int, tag string) {
	h := len(lines)
	if h > maxH {
		h = maxH
	}
	zzverif.Assert(int(s.Size.Height) == h, tag+":surface-height-is-number-of-lines")
	wantW := 0
	for i, l := range lines {
		if i >= h {
			break
		}
		w := 0
		for _, c := range l {
			w += c.Width
		}
		if w > wantW {
			wantW = w
		}
	}
	if wantW > maxW {
		wantW = maxW
	}
	zzverif.Assert(int(s.Size.Width) == wantW, tag+":surface-width-is-widest-line")
	if int(s.Size.Height) != h || int(s.Size.Width) != wantW || len(s.Buffer) != h*wantW {
		return
	}
	rowsOK := true
	for r := 0; r < h; r++ {
		col := 0
		for _, c := range lines[r] {
			if col >= wantW {
				break
			}
			rowsOK = rowsOK && s.Buffer[r*wantW+col].Grapheme == c.Grapheme
			col += c.Width
		}
	}
	zzverif.Assert(rowsOK, tag+":row-shows-its-line")
}
