package vxfw

import (
	"git.sr.ht/~rockorager/vaxis"
	"git.sr.ht/~rockorager/vaxis/zzverif"
)

// VerifC14Surface: surface addressing for every height and coordinate (free uint16; width from a boundary list; the
// buffer is a lazy symbolic-length slice): the buffer holds width*height cells (computed in
// 64 bits), an in-range write lands in exactly cell row*width+col, an out-of-range write is
// ignored, nothing panics.
func VerifC14Surface() {
	// the width is enumerated over boundary values (symbolic x symbolic multiplication does not
	// finish in the solver); height, column, row and the probe index are free
	widths := []uint16{0, 1, 2, 3, 255, 256, 257, 300, 32768, 65535}
	w, h := widths[zzverif.Choose("w", len(widths))], zzverif.Uint16("h")
	col, row := zzverif.Uint16("col"), zzverif.Uint16("row")
	// surfaces of at most 2^20 cells (the native replay of a model allocates the real buffer:
	// 65535 x 65535 cells do not fit in memory); this still spans every width, heights up to
	// 65535 for narrow surfaces and products far beyond 16 bits
	zzverif.Assume(int(w)*int(h) <= 1<<20)
	s := NewSurface(w, h, nil)
	zzverif.Assert(len(s.Buffer) == int(w)*int(h), "buffer-holds-width-times-height-cells")
	mark := vaxis.Cell{Style: vaxis.Style{Attribute: vaxis.AttrBold}}
	s.WriteCell(col, row, mark)
	k := zzverif.Int("probe")
	zzverif.Assume(k >= 0 && k < len(s.Buffer))
	changed := s.Buffer[k].Attribute != 0
	inside := col < w && row < h
	addressed := inside && k == int(row)*int(w)+int(col)
	zzverif.Assert(!changed || addressed, "write-lands-only-in-addressed-cell")
	zzverif.Assert(!addressed || changed, "in-range-write-is-stored")
	zzverif.Reach("end")
}
