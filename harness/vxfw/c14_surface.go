package vxfw

import (
	"git.sr.ht/~rockorager/vaxis"
	"git.sr.ht/~rockorager/vaxis/zzverif"
)

// VerifC14Surface: surface addressing for every height and coordinate (free uint16; width from a boundary list; the
// buffer is a lazy symbolic-length slice): the buffer holds width*height cells (computed in
// 64 bits), an in-range write lands in exactly cell row*width+col, an out-of-range write is
// ignored, nothing panics.
func VerifC14Surface() {
	// the width is enumerated over boundary values (symbolic x symbolic multiplication does not
	// finish in the solver); height, column, row and the probe index are free
	widths := []uint16{0, 1, 2, 3, 255, 256, 257, 300, 32768, 65535}
	w, h := widths[zzverif.Choose("w", len(widths))], zzverif.Uint16("h")
	col, row := zzverif.Uint16("col"), zzverif.Uint16("row")
	// surfaces of at most 2^20 cells (the native replay of a model allocates the real buffer:
	// 65535 x 65535 cells do not fit in memory); this still spans every width, heights up to
	// 65535 for narrow surfaces and products far beyond 16 bits
	zzverif.Assume(int(w)*int(h) <= 1<<20)
	s := NewSurface(w, h, nil)
	zzverif.Assert(len(s.Buffer) == int(w)*int(h), "buffer-holds-width-times-height-cells")
	mark := vaxis.Cell{Style: vaxis.Style{Attribute: vaxis.AttrBold}}
	s.WriteCell(col, row, mark)
	k := zzverif.Int("probe")
	zzverif.Assume(k >= 0 && k < len(s.Buffer))
	changed := s.Buffer[k].Attribute != 0
	inside := col < w && row < h
	addressed := inside && k == int(row)*int(w)+int(col)
	zzverif.Assert(!changed || addressed, "write-lands-only-in-addressed-cell")
	zzverif.Assert(!addressed || changed, "in-range-write-is-stored")
	zzverif.Reach("end")
}

// VerifC14RenderTree: rendering a surface tree paints each child at its offset, clipped to
// its parent, in z-order: a 4x3 root with children A (3x2, holding a 1x1 grandchild G) and B
// (2x2) at origins before, at the edge of, inside and beyond the parent, with free z-index;
// every screen cell then shows the topmost surface covering it (G over A; A and B by
// z-index; equal z-index on an overlap is unconstrained), and nothing is painted outside a
// parent. Origins are picked from lists, one concrete path per combination (symbolic origins
// make every screen cell a case split over all cells).
func VerifC14RenderTree() {
	fill := func(w, h int, g string) Surface {
		s := NewSurface(uint16(w), uint16(h), nil)
		for i := range s.Buffer {
			s.Buffer[i] = vaxis.Cell{Character: vaxis.Character{Grapheme: g, Width: 1}}
		}
		return s
	}
	pick := func(name string, vals ...int) int {
		return zzverif.Concrete(vals[zzverif.Choose(name, len(vals))])
	}
	aw, ah, bw, bh := 3, 2, 2, 2
	ax, ay := pick("ax", -1, 0, 2, 3), pick("ay", -1, 0, 2)
	bx, by := pick("bx", -1, 1, 3), pick("by", 0, 2)
	gx, gy := pick("gx", -1, 0, 2), 0
	az, bz := pick("az", 0, 1), pick("bz", 0, 1)
	a := fill(aw, ah, "a")
	a.AddChild(gx, gy, fill(1, 1, "g"))
	sa, sb := NewSubSurface(ax, ay, a), NewSubSurface(bx, by, fill(bw, bh, "b"))
	sa.ZIndex, sb.ZIndex = az, bz
	root := fill(4, 3, "r")
	root.Children = []SubSurface{sa, sb}
	if az == 1 && bz == 0 {
		root.Children = []SubSurface{sb, sa}
	}
	vx := vaxis.VerifBare(4, 3)
	root.render(vx.Window(), nil)
	ok := true
	for y := 0; y < 3; y++ {
		for x := 0; x < 4; x++ {
			inA := x >= ax && x < ax+aw && y >= ay && y < ay+ah
			inB := x >= bx && x < bx+bw && y >= by && y < by+bh
			// the grandchild is clipped to A: it shows only inside A's rectangle
			inG := inA && x == ax+gx && y == ay+gy
			want := "r"
			switch {
			case inA && inB && az == bz:
				continue // unconstrained
			case inA && inB && bz > az:
				want = "b"
			case inG:
				want = "g"
			case inA:
				want = "a"
			case inB:
				want = "b"
			}
			ok = ok && vaxis.VerifNextCell(vx, x, y).Grapheme == want
		}
	}
	zzverif.Assert(ok, "each-cell-shows-the-topmost-surface-clipped-to-its-parents")
	zzverif.Reach("end")
}
