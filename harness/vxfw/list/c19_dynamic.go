package list

import (
	"git.sr.ht/~rockorager/vaxis"
	"git.sr.ht/~rockorager/vaxis/vxfw"
	"git.sr.ht/~rockorager/vaxis/zzverif"
)

// verifItem is a list item of a fixed height.
type verifItem struct {
	id int
	h  uint16
}

func (it *verifItem) HandleEvent(vaxis.Event, vxfw.EventPhase) (vxfw.Command, error) { return nil, nil }

func (it *verifItem) Draw(ctx vxfw.DrawContext) (vxfw.Surface, error) {
	w := ctx.Max.Width
	if w > 3 {
		w = 3
	}
	return vxfw.NewSurface(w, it.h, it), nil
}

// verifItemID finds the item a drawn child shows (the cursor decoration wraps the item's
// surface in another surface of the same widget).
func verifItemID(ss vxfw.SubSurface) int {
	if it, ok := ss.Surface.Widget.(*verifItem); ok {
		return it.id
	}
	return -1
}

// VerifC19Dynamic: the builder-driven list with 0-3 items of free heights in a viewport of
// free height, with or without its cursor gutter and item gap: `ops` operations (next, previous,
// wheel down, wheel up, set cursor) each followed by a draw: no panic, the cursor stays in
// range, the drawn items are consecutive items laid out in order, contiguously and without
// overlap, and after a selection change the selected item is inside the viewport.
func VerifC19Dynamic() {
	// small=1: fewer item sets (0 or 3 items of heights 1 / 3) so that longer operation
	// sequences stay cheap
	small := zzverif.Param("small") == 1
	n := []int{0, 1, 2, 3}[zzverif.Choose("items", 4)]
	heights := []uint16{1, 3, 5}
	if small {
		zzverif.Assume(n == 0 || n == 3)
		heights = []uint16{1, 3}
	}
	items := make([]*verifItem, n)
	for i := range items {
		items[i] = &verifItem{id: i, h: heights[zzverif.Choose("height", len(heights))]}
	}
	H := 1 + zzverif.Choose("viewport", 4)
	d := &Dynamic{Builder: func(i uint, cursor uint) vxfw.Widget {
		if int(i) < n {
			return items[i]
		}
		return nil
	}}
	d.DrawCursor = zzverif.Bool("drawCursor")
	if !small {
		d.Gap = zzverif.Choose("gap", 2)
	}
	ctx := vxfw.DrawContext{Max: vxfw.Size{Width: 5, Height: uint16(H)}, Characters: vaxis.Characters}
	zzverif.Terminates(4000)
	cursorSetBeyond := false
	check := func(selectionChanged bool, tag string) {
		s, err := d.Draw(ctx)
		zzverif.Assert(err == nil, "draw-succeeds")
		if n == 0 {
			zzverif.Assert(len(s.Children) == 0 && d.Cursor() == 0, "empty-list-draws-nothing")
			return
		}
		if int(d.Cursor()) >= n {
			zzverif.Assert(cursorSetBeyond, "cursor-within-range")
			return
		}
		ordered, contiguous := true, true
		selRow, selH := -1000, 0
		for i, ch := range s.Children {
			id := verifItemID(ch)
			if i > 0 {
				prev := s.Children[i-1]
				ordered = ordered && id == verifItemID(prev)+1
				// no overlap, and no hole larger than the configured gap
				end := prev.Origin.Row + int(prev.Surface.Size.Height)
				contiguous = contiguous && ch.Origin.Row >= end && ch.Origin.Row <= end+d.Gap
			}
			ordered = ordered && id >= 0 && id < n && ch.Surface.Size.Height == items[id%3].h
			if id == int(d.Cursor()) {
				selRow, selH = ch.Origin.Row, int(ch.Surface.Size.Height)
			}
		}
		zzverif.Assert(ordered, "drawn-items-are-consecutive-items-in-order")
		zzverif.Assert(contiguous, "drawn-items-contiguous-without-overlap")
		if selectionChanged {
			// fully visible when it fits; of an item taller than the viewport some part
			visible := selRow >= 0 && selRow+selH <= H
			if selH > H {
				visible = selRow < H && selRow+selH > 0
			}
			zzverif.Assert(visible, tag+":selected-item-inside-viewport-after-selection-change")
		}
	}
	check(false, "initial")
	k := zzverif.Param("ops")
	for j := 0; j < k; j++ {
		before := d.Cursor()
		switch zzverif.Choose("op", 7) {
		case 6:
			// nothing happens between two draws
		case 5:
			// a caller error (the cursor set one past the last item): the widget cannot know
			// the item count, so only "no panic" is claimed until the cursor is back in range
			d.SetCursor(uint(n))
			cursorSetBeyond = true
		case 0:
			d.NextItem()
		case 1:
			d.PrevItem()
		case 2:
			d.HandleEvent(vaxis.Mouse{Button: vaxis.MouseWheelDown}, vxfw.TargetPhase)
		case 3:
			d.HandleEvent(vaxis.Mouse{Button: vaxis.MouseWheelUp}, vxfw.TargetPhase)
		case 4:
			if n > 0 {
				d.SetCursor(uint(zzverif.Choose("target", 3) % n))
			}
		}
		check(d.Cursor() != before, "op")
	}
	zzverif.Reach("end")
}
