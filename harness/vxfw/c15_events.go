package vxfw

import (
	"git.sr.ht/~rockorager/vaxis"
	"git.sr.ht/~rockorager/vaxis/zzverif"
)

type verifLogEntry struct {
	node  int
	phase int // 0 capture, 1 target, 2 bubble
	kind  int // 0 other, 1 FocusIn, 2 FocusOut, 3 MouseEnter, 4 MouseLeave
}

type verifNode struct {
	id             int
	log            *[]verifLogEntry
	consumeCapture bool
	consumeTarget  bool
	consumeBubble  bool
	cmdOnTarget    Command
	cmdOnFocusIn   Command
	cmdOnFocusOut  Command
	consumeHover   bool // consume command returned from the MouseEnter / MouseLeave handlers
}

func verifKind(ev vaxis.Event) int {
	switch ev.(type) {
	case vaxis.FocusIn:
		return 1
	case vaxis.FocusOut:
		return 2
	case MouseEnter:
		return 3
	case MouseLeave:
		return 4
	}
	return 0
}

func (n *verifNode) HandleEvent(ev vaxis.Event, ph EventPhase) (Command, error) {
	p := 1
	if ph == BubblePhase {
		p = 2
	}
	*n.log = append(*n.log, verifLogEntry{n.id, p, verifKind(ev)})
	if verifKind(ev) == 1 {
		return n.cmdOnFocusIn, nil
	}
	if verifKind(ev) == 2 {
		return n.cmdOnFocusOut, nil
	}
	if verifKind(ev) == 3 || verifKind(ev) == 4 {
		if n.consumeHover {
			return ConsumeAndRedraw(), nil
		}
		return nil, nil
	}
	if verifKind(ev) != 0 {
		return nil, nil
	}
	if p == 1 && n.cmdOnTarget != nil {
		return n.cmdOnTarget, nil
	}
	if p == 1 && n.consumeTarget || p == 2 && n.consumeBubble {
		return ConsumeEventCmd{}, nil
	}
	return nil, nil
}

func (n *verifNode) Draw(ctx DrawContext) (Surface, error) { return Surface{Widget: n}, nil }

// verifCapNode is a node that also takes part in the capture phase.
type verifCapNode struct{ verifNode }

func (n *verifCapNode) CaptureEvent(ev vaxis.Event) (Command, error) {
	*n.log = append(*n.log, verifLogEntry{n.id, 0, verifKind(ev)})
	if n.consumeCapture {
		return ConsumeEventCmd{}, nil
	}
	return nil, nil
}

func verifMkNode(id int, log *[]verifLogEntry) (Widget, *verifNode) {
	if zzverif.Bool("captures") {
		c := &verifCapNode{verifNode{id: id, log: log}}
		c.consumeCapture = zzverif.Bool("consumeCapture")
		c.consumeTarget, c.consumeBubble = zzverif.Bool("consumeTarget"), zzverif.Bool("consumeBubble")
		return c, &c.verifNode
	}
	n := &verifNode{id: id, log: log}
	n.consumeTarget, n.consumeBubble = zzverif.Bool("consumeTarget"), zzverif.Bool("consumeBubble")
	return n, n
}

func verifIsCap(w Widget) (*verifCapNode, bool) {
	c, ok := w.(*verifCapNode)
	return c, ok
}

// VerifC15Focus: a chain root -> A -> B of instrumented widgets, each capturing or not and
// consuming or not in each phase (free), any of them focused: a key event is offered to the
// capturing ancestors from the root down to the focused widget, then to the focused widget,
// then to its ancestors from the nearest up to the root, and stops at the first consumer.
func VerifC15Focus() {
	var log []verifLogEntry
	ws := make([]Widget, 3)
	ns := make([]*verifNode, 3)
	for i := range ws {
		ws[i], ns[i] = verifMkNode(i, &log)
	}
	leaf := Surface{Size: Size{Width: 1, Height: 1}, Widget: ws[2]}
	mid := Surface{Size: Size{Width: 2, Height: 1}, Widget: ws[1], Children: []SubSurface{NewSubSurface(0, 0, leaf)}}
	root := Surface{Size: Size{Width: 3, Height: 1}, Widget: ws[0], Children: []SubSurface{NewSubSurface(0, 0, mid)}}
	f := zzverif.Choose("focused", 3)
	app := &App{}
	app.fh = focusHandler{root: ws[0], focused: ws[f]}
	app.fh.updatePath(app, root)
	log = log[:0]
	if zzverif.Bool("staleConsume") {
		// a consume command interpreted outside any dispatch (a hover notification's handler
		// returning one during the per-frame mouse update) must not leak into the next event
		app.handleCommand(ConsumeEventCmd{})
	}
	app.fh.handleEvent(app, vaxis.Key{Keycode: 'x'})
	// expected
	var want []verifLogEntry
	done := false
	for i := 0; i <= f && !done; i++ {
		if c, ok := verifIsCap(ws[i]); ok {
			want = append(want, verifLogEntry{i, 0, 0})
			done = c.consumeCapture
		}
	}
	if !done {
		want = append(want, verifLogEntry{f, 1, 0})
		done = ns[f].consumeTarget
	}
	for i := f - 1; i >= 0 && !done; i-- {
		want = append(want, verifLogEntry{i, 2, 0})
		done = ns[i].consumeBubble
	}
	same := len(want) == len(log)
	for i := 0; same && i < len(want); i++ {
		same = want[i] == log[i]
	}
	zzverif.Assert(same, "capture-target-bubble-order-and-stop-at-consumer")
	zzverif.Assert(!app.consumeEvent, "consume-flag-cleared-after-dispatch")
	zzverif.Reach("end")
}

// VerifC15Commands: a handler's returned command (redraw, refresh, quit, consume, focus, and
// batches nesting them) takes effect exactly once; a focus change delivers exactly one
// FocusOut to the old widget and one FocusIn to the new one.
func VerifC15Commands() {
	var log []verifLogEntry
	a, b := &verifNode{id: 0, log: &log}, &verifNode{id: 1, log: &log}
	app := &App{}
	app.fh = focusHandler{root: a, focused: a}
	var cmd Command
	focus := false
	wantRedraw, wantRefresh, wantQuit, wantConsume := false, false, false, false
	switch zzverif.Choose("cmd", 7) {
	case 0:
		cmd, wantRedraw = RedrawCmd{}, true
	case 1:
		cmd, wantRefresh = RefreshCmd{}, true
	case 2:
		cmd, wantQuit = QuitCmd{}, true
	case 3:
		cmd, wantConsume = ConsumeEventCmd{}, true
	case 4:
		cmd, focus = FocusWidgetCmd(b), true
	case 5:
		cmd = BatchCmd{RedrawCmd{}, BatchCmd{QuitCmd{}, FocusWidgetCmd(b)}}
		wantRedraw, wantQuit, focus = true, true, true
	case 6:
		cmd = []Command{RefreshCmd{}, ConsumeAndRedraw()}
		wantRefresh, wantRedraw, wantConsume = true, true, true
	}
	// the newly focused widget may pass the focus on from its FocusIn handler: to a third
	// widget, to itself (no change) or back to the old one
	c := &verifNode{id: 2, log: &log}
	fwd := zzverif.Choose("forward", 4)
	chain := []*verifNode{b}
	switch fwd {
	case 1:
		b.cmdOnFocusIn = FocusWidgetCmd(c)
		chain = append(chain, c)
	case 2:
		b.cmdOnFocusIn = FocusWidgetCmd(b)
		chain = append(chain, b)
	case 3:
		b.cmdOnFocusIn = FocusWidgetCmd(a)
		chain = append(chain, a)
	}
	if zzverif.Bool("oldWidgetClings") {
		// the widget losing the focus answers its FocusOut with a focus command for itself:
		// it is still the focused widget at that moment, so nothing happens
		a.cmdOnFocusOut = FocusWidgetCmd(a)
	}
	app.handleCommand(cmd)
	zzverif.Assert(app.redraw == wantRedraw && app.refresh == wantRefresh && app.shouldQuit == wantQuit && app.consumeEvent == wantConsume, "command-flags-set-exactly")
	if focus {
		// every change of focus: one FocusOut to the widget that had it, one FocusIn to the
		// widget that gets it, nothing else
		var want []verifLogEntry
		cur := a
		for _, t := range chain {
			if t != cur {
				want = append(want, verifLogEntry{cur.id, 1, 2}, verifLogEntry{t.id, 1, 1})
				cur = t
			}
		}
		same := len(want) == len(log)
		for i := 0; same && i < len(want); i++ {
			same = want[i] == log[i]
		}
		zzverif.Assert(same && app.fh.focused == Widget(cur), "one-focus-out-and-one-focus-in-per-focus-change")
		// a key arriving before the next frame already goes to the newly focused widget
		from := len(log)
		app.fh.handleEvent(app, vaxis.Key{Keycode: 'k'})
		target := -1
		for _, e := range log[from:] {
			if e.kind == 0 && e.phase == 1 {
				target = e.node
			}
		}
		zzverif.Assert(target == cur.id, "key-after-focus-change-targets-the-focused-widget")
	} else {
		zzverif.Assert(len(log) == 0, "no-focus-events-without-focus-command")
	}
	zzverif.Reach("end")
}

// VerifC15Mouse: root with two children of free geometry (possibly overlapping, free z-order)
// and a grandchild; three mouse positions (free) then the pointer leaves: the event is routed
// along the chain of widgets under the pointer with the deepest (topmost) one as target;
// enter and leave notifications alternate per widget and are all closed at the end.
func VerifC15Mouse() {
	var log []verifLogEntry
	ws := make([]*verifNode, 4)
	for i := range ws {
		ws[i] = &verifNode{id: i, log: &log}
	}
	g8 := func(name string, lo, hi int) int {
		v := int(zzverif.Byte(name))
		zzverif.Assume(v >= lo && v <= hi)
		return v
	}
	grand := Surface{Size: Size{Width: 1, Height: 1}, Widget: ws[3]}
	a := Surface{Size: Size{Width: uint16(g8("aw", 1, 3)), Height: uint16(g8("ah", 1, 2))}, Widget: ws[1],
		Children: []SubSurface{NewSubSurface(0, 0, grand)}}
	b := Surface{Size: Size{Width: uint16(g8("bw", 1, 3)), Height: uint16(g8("bh", 1, 2))}, Widget: ws[2]}
	sa, sb := NewSubSurface(g8("ax", 0, 3), g8("ay", 0, 2), a), NewSubSurface(g8("bx", 0, 3), g8("by", 0, 2), b)
	sa.ZIndex, sb.ZIndex = g8("az", 0, 1), g8("bz", 0, 1)
	root := Surface{Size: Size{Width: 5, Height: 3}, Widget: ws[0], Children: []SubSurface{sa, sb}}
	app := &App{}
	// as App.Run does: the frame is painted (which orders children by z-index) before the
	// mouse handler hit-tests it
	root.render(vaxis.VerifBare(5, 3).Window(), nil)
	sa, sb = root.Children[0], root.Children[1]
	if sa.Surface.Widget != Widget(ws[1]) {
		sa, sb = sb, sa
	}
	mh := &mouseHandler{lastFrame: root}
	inside := make([]bool, 4)
	alternates := true
	note := func(from int) {
		for _, e := range log[from:] {
			if e.kind == 3 {
				alternates = alternates && !inside[e.node]
				inside[e.node] = true
			}
			if e.kind == 4 {
				alternates = alternates && inside[e.node]
				inside[e.node] = false
			}
		}
	}
	if zzverif.Param("flags") == 1 {
		// one widget (or none) consumes the mouse event in its target / bubble phase, and one
		// (or none) answers hover notifications with a consume-and-redraw command
		if c := zzverif.Choose("consumer", 5); c < 4 {
			ws[c].consumeTarget, ws[c].consumeBubble = true, true
		}
		if c := zzverif.Choose("hoverConsumer", 5); c < 4 {
			ws[c].consumeHover = true
		}
	}
	n := zzverif.Param("moves")
	for i := 0; i < n; i++ {
		col, row := g8("mx", 0, 5), g8("my", 0, 3)
		from := len(log)
		mh.handleEvent(app, vaxis.Mouse{Col: col, Row: row, EventType: vaxis.EventMotion, Button: vaxis.MouseNoButton})
		note(from)
		// the target: deepest widget containing the point; for overlapping siblings the topmost
		inRoot := col < 5 && row < 3
		inA := sa.containsPoint(col, row)
		inB := sb.containsPoint(col, row)
		inGrand := inA && col == sa.Origin.Col && row == sa.Origin.Row
		target := -1
		switch {
		case !inRoot:
		case inA && inB && sb.ZIndex > sa.ZIndex:
			target = 2
		case inA && inB && sa.ZIndex > sb.ZIndex && inGrand:
			target = 3
		case inA && inB && sa.ZIndex > sb.ZIndex:
			target = 1
		case inA && inB:
			target = -2 // equal z-order: unconstrained
		case inGrand:
			target = 3
		case inA:
			target = 1
		case inB:
			target = 2
		default:
			target = 0
		}
		got := -1
		for _, e := range log[from:] {
			if e.kind == 0 && e.phase == 1 {
				got = e.node
			}
		}
		if target != -2 {
			zzverif.Assert(got == target, "mouse-target-is-deepest-topmost-widget-under-pointer")
		}
		if target >= 0 {
			// the event itself: target phase at the target, then bubble through its ancestors
			// from the nearest up to the root (in a pile of overlapping siblings the lower ones count as
			// part of the chain), stopping at the first consumer (hover
			// notifications and what their handlers return do not count)
			// the chain of widgets under the pointer, in paint order: the root, then the
			// children containing the point from the lowest z-index up, each followed by its
			// own descendants under the pointer; the last one is the target
			chain := []int{0}
			aPart := []int{1}
			if inGrand {
				aPart = append(aPart, 3)
			}
			switch {
			case inA && inB && sa.ZIndex < sb.ZIndex:
				chain = append(append(chain, aPart...), 2)
			case inA && inB:
				chain = append(append(chain, 2), aPart...)
			case inA:
				chain = append(chain, aPart...)
			case inB:
				chain = append(chain, 2)
			}
			var want []verifLogEntry
			want = append(want, verifLogEntry{target, 1, 0})
			stop := ws[target].consumeTarget
			for j := len(chain) - 2; j >= 0 && !stop; j-- {
				want = append(want, verifLogEntry{chain[j], 2, 0})
				stop = ws[chain[j]].consumeBubble
			}
			var gotEv []verifLogEntry
			for _, e := range log[from:] {
				if e.kind == 0 {
					gotEv = append(gotEv, e)
				}
			}
			same := len(want) == len(gotEv)
			for j := 0; same && j < len(want); j++ {
				same = want[j] == gotEv[j]
			}
			zzverif.Assert(same, "mouse-event-routed-target-then-bubble-until-consumed")
		}
	}
	from := len(log)
	mh.mouseExit(app)
	note(from)
	closed := true
	for _, in := range inside {
		closed = closed && !in
	}
	zzverif.Assert(alternates, "enter-and-leave-alternate-per-widget")
	zzverif.Assert(closed, "all-enters-closed-when-pointer-leaves")
	zzverif.Reach("end")
}

// VerifC15FocusFrames: the focus path is recomputed after each frame: frame 1 is the chain
// root -> A -> B; frame 2 keeps that chain, or hangs B directly under the root, or puts B
// under another widget C, or drops B altogether; focus is on A or B (free). A key event after
// frame 2 is routed along frame 2's ancestors of the focused widget; when the focused widget
// has vanished it gets exactly one focus-out, the root exactly one focus-in, and the root
// receives the key.
func VerifC15FocusFrames() {
	var log []verifLogEntry
	mk := func(id int) *verifNode { return &verifNode{id: id, log: &log} }
	a, b, c := mk(1), mk(2), mk(3)
	// the application's root widget captures events (it is always first on the path, also
	// when the frame's root surface belongs to another widget because the root delegates
	// its Draw to a child)
	rootC := &verifCapNode{verifNode{id: 0, log: &log}}
	var rootW Widget = rootC
	surf := func(w Widget, kids ...Surface) Surface {
		s := Surface{Size: Size{Width: 3, Height: 1}, Widget: w}
		for _, k := range kids {
			s.Children = append(s.Children, NewSubSurface(0, 0, k))
		}
		return s
	}
	focused := []*verifNode{a, b}[zzverif.Choose("focused", 2)]
	app := &App{}
	app.fh = focusHandler{root: rootW, focused: focused}
	app.fh.updatePath(app, surf(rootW, surf(a, surf(b))))
	app.fh.handleEvent(app, vaxis.Key{Keycode: 'x'})
	log = log[:0]
	// frame 2
	var frame2 Surface
	var chain []int // ancestors of the focused widget in frame 2, root first, itself last
	shape := zzverif.Choose("frame2", 5)
	switch shape {
	case 0:
		frame2 = surf(rootW, surf(a, surf(b)))
		chain = []int{0, 1, 2}
	case 1:
		frame2 = surf(rootW, surf(a), surf(b))
		chain = []int{0, 2}
	case 2:
		frame2 = surf(rootW, surf(a), surf(c, surf(b)))
		chain = []int{0, 3, 2}
	case 3:
		frame2 = surf(rootW, surf(a))
		chain = nil // B is gone
	case 4:
		// the root delegates: the frame is A's surface
		frame2 = surf(a, surf(b))
		chain = []int{0, 1, 2}
	}
	if focused == a {
		chain = []int{0, 1}
	}
	app.fh.updatePath(app, frame2)
	if chain == nil {
		want := []verifLogEntry{{2, 1, 2}, {0, 1, 1}}
		same := len(log) == len(want)
		for i := 0; same && i < len(want); i++ {
			same = log[i] == want[i]
		}
		zzverif.Assert(same && app.fh.focused == rootW, "vanished-widget-loses-focus-to-the-root-exactly-once")
		chain = []int{0}
	}
	log = log[:0]
	app.fh.handleEvent(app, vaxis.Key{Keycode: 'y'})
	// the root captures first, nothing consumes: then target, then bubble through the ancestors
	var want []verifLogEntry
	want = append(want, verifLogEntry{0, 0, 0})
	want = append(want, verifLogEntry{chain[len(chain)-1], 1, 0})
	for i := len(chain) - 2; i >= 0; i-- {
		want = append(want, verifLogEntry{chain[i], 2, 0})
	}
	same := len(log) == len(want)
	for i := 0; same && i < len(want); i++ {
		same = log[i] == want[i]
	}
	zzverif.Assert(same, "key-routed-along-the-current-frame's-ancestors")
	zzverif.Reach("end")
}
