package textfield

import (
	"git.sr.ht/~rockorager/vaxis"
	"git.sr.ht/~rockorager/vaxis/vxfw"
	"git.sr.ht/~rockorager/vaxis/zzverif"
)

type verifG struct {
	g string
	w int
}

var verifContents = [][]verifG{
	{},
	{{"a", 1}},
	{{"a", 1}, {"b", 1}},
	{{"a", 1}, {"世", 2}, {"é", 1}},
	{{"a", 1}, {"b", 1}, {"c", 1}, {"d", 1}},
}

func verifJoin(gs []verifG) string {
	s := ""
	for _, g := range gs {
		s += g.g
	}
	return s
}

// VerifC17TextField: one editing operation from an arbitrary valid state (content from a
// list, cursor free in [0,count], invariant n == grapheme count): the field holds exactly
// what an ideal grapheme line editor holds, the cursor is the ideal cursor and inside the
// text, the invariant holds again, OnChange fires iff the value changed, OnSubmit on Enter,
// and the drawn cursor column is the display width of the text before the cursor.
func VerifC17TextField() {
	ideal := append([]verifG{}, verifContents[zzverif.Choose("content", len(verifContents))]...)
	tf := New()
	tf.Value = verifJoin(ideal)
	tf.n = uint(len(ideal))
	cur := int(zzverif.Byte("cursor"))
	zzverif.Assume(cur >= 0 && cur <= len(ideal))
	tf.cursor = uint(cur)
	changes, submits := 0, 0
	submitted := ""
	// the callbacks are optional: the editor behaves the same with or without them
	haveChange, haveSubmit := zzverif.Bool("haveOnChange"), zzverif.Bool("haveOnSubmit")
	if haveChange {
		tf.OnChange = func(string) (vxfw.Command, error) { changes++; return nil, nil }
	}
	if haveSubmit {
		tf.OnSubmit = func(s string) (vxfw.Command, error) { submits++; submitted = s; return nil, nil }
	}
	pre := tf.Value
	// key events arrive as presses, auto-repeats or pasted keys (all of which edit) or as
	// releases (which never do)
	evType := []vaxis.EventType{vaxis.EventPress, vaxis.EventRepeat, vaxis.EventPaste, vaxis.EventRelease}[zzverif.Choose("eventType", 4)]
	key := func(k vaxis.Key) { k.EventType = evType; tf.HandleEvent(k, vxfw.TargetPhase) }
	ideal0, cur0 := append([]verifG{}, ideal...), cur
	insert := func(gs ...verifG) {
		rest := append([]verifG{}, ideal[cur:]...)
		ideal = append(append(ideal[:cur:cur], gs...), rest...)
		cur += len(gs)
	}
	wantSubmit := false
	op := zzverif.Choose("op", 12)
	switch op {
	case 0:
		key(vaxis.Key{Keycode: 'x', Text: "x"})
		insert(verifG{"x", 1})
	case 1:
		key(vaxis.Key{Keycode: '世', Text: "世"})
		insert(verifG{"世", 2})
	case 2:
		key(vaxis.Key{Keycode: 'a', Modifiers: vaxis.ModCtrl})
		cur = 0
	case 3:
		key(vaxis.Key{Keycode: 'e', Modifiers: vaxis.ModCtrl})
		cur = len(ideal)
	case 4:
		key(vaxis.Key{Keycode: vaxis.KeyRight})
		if cur < len(ideal) {
			cur++
		}
	case 5:
		key(vaxis.Key{Keycode: vaxis.KeyLeft})
		if cur > 0 {
			cur--
		}
	case 6:
		key(vaxis.Key{Keycode: vaxis.KeyDelete})
		if cur < len(ideal) {
			ideal = append(ideal[:cur:cur], ideal[cur+1:]...)
		}
	case 7:
		key(vaxis.Key{Keycode: vaxis.KeyBackspace})
		if cur > 0 {
			ideal = append(ideal[:cur-1:cur-1], ideal[cur:]...)
			cur--
		}
	case 8:
		key(vaxis.Key{Keycode: 'k', Modifiers: vaxis.ModCtrl})
		ideal = ideal[:cur]
	case 9:
		key(vaxis.Key{Keycode: vaxis.KeyEnter})
		wantSubmit = true
	case 10:
		tf.InsertStringAtCursor("yz")
		insert(verifG{"y", 1}, verifG{"z", 1})
	case 11:
		tf.Reset()
		ideal, cur = nil, 0
	}
	if op <= 9 && evType == vaxis.EventRelease {
		// a key release changes nothing
		ideal, cur, wantSubmit = ideal0, cur0, false
	}
	if wantSubmit {
		if haveSubmit {
			zzverif.Assert(submits == 1 && submitted == pre, "enter-submits-the-line")
		}
		ideal, cur = nil, 0
	} else {
		zzverif.Assert(submits == 0, "no-submit-without-enter")
	}
	zzverif.Assert(tf.Value == verifJoin(ideal), "value-equals-ideal-editor")
	zzverif.Assert(int(tf.cursor) == cur, "cursor-equals-ideal-cursor")
	zzverif.Assert(tf.cursor <= graphemeCountInString(tf.Value), "cursor-within-text")
	zzverif.Assert(tf.n == graphemeCountInString(tf.Value), "count-invariant-preserved")
	if op <= 8 && haveChange { // key events report changes through OnChange
		if tf.Value != pre {
			zzverif.Assert(changes == 1, "change-callback-fires-when-value-changes")
		} else {
			zzverif.Assert(changes == 0, "no-change-callback-without-change")
		}
	}
	// drawing: the text fits (max width 20)
	s, _ := tf.Draw(vxfw.DrawContext{Max: vxfw.Size{Width: 20, Height: 1}, Characters: vaxis.Characters})
	wantCol := 0
	for i := 0; i < int(tf.cursor) && i < len(ideal); i++ {
		wantCol += ideal[i].w
	}
	if s.Cursor != nil && int(tf.cursor) <= len(ideal) {
		zzverif.Assert(int(s.Cursor.Col) == wantCol, "drawn-cursor-column-is-width-before-cursor")
	}
	zzverif.Reach("end")
}
