package center

import (
	"git.sr.ht/~rockorager/vaxis"
	"git.sr.ht/~rockorager/vaxis/vxfw"
	"git.sr.ht/~rockorager/vaxis/zzverif"
)

type verifStub struct{ w, h uint16 }

func (s *verifStub) HandleEvent(ev vaxis.Event, ph vxfw.EventPhase) (vxfw.Command, error) {
	return nil, nil
}

// Draw returns a surface of the stub's size, clamped to the maximum as the layout contract
// requires of every widget.
func (s *verifStub) Draw(ctx vxfw.DrawContext) (vxfw.Surface, error) {
	w, h := s.w, s.h
	if w > ctx.Max.Width {
		w = ctx.Max.Width
	}
	if h > ctx.Max.Height {
		h = ctx.Max.Height
	}
	return vxfw.Surface{Size: vxfw.Size{Width: w, Height: h}, Widget: s}, nil
}

// VerifC14Center: for every bounded maximum and every child size, Center returns a surface
// no larger than the maximum with the child fully inside and margins equal to within one.
func VerifC14Center() {
	maxw, maxh := zzverif.Uint16("maxw"), zzverif.Uint16("maxh")
	zzverif.Assume(maxw != 65535 && maxh != 65535)
	c := &Center{Child: &verifStub{w: zzverif.Uint16("cw"), h: zzverif.Uint16("ch")}}
	s, err := c.Draw(vxfw.DrawContext{Max: vxfw.Size{Width: maxw, Height: maxh}})
	zzverif.Assert(err == nil, "no-error")
	zzverif.Assert(s.Size.Width <= maxw && s.Size.Height <= maxh, "center-within-max")
	zzverif.Assert(len(s.Children) == 1, "one-child")
	ch := s.Children[0]
	left, top := int(ch.Origin.Col), int(ch.Origin.Row)
	right := int(s.Size.Width) - left - int(ch.Surface.Size.Width)
	bottom := int(s.Size.Height) - top - int(ch.Surface.Size.Height)
	zzverif.Assert(left >= 0 && top >= 0 && right >= 0 && bottom >= 0, "child-inside-parent")
	zzverif.Assert(right-left >= 0 && right-left <= 1 && bottom-top >= 0 && bottom-top <= 1, "margins-equal-within-one")
	zzverif.Reach("end")
}
