package text

import (
	"git.sr.ht/~rockorager/vaxis"
	"git.sr.ht/~rockorager/vaxis/vxfw"
	"git.sr.ht/~rockorager/vaxis/zzverif"
)

var verifContents = []string{"", "a", "ab\ncd\nef", "世界", "abcdef", "a\n\nb\n", "x\ny\nz\nw"}

// VerifC14TextSize: the container size Text computes never exceeds the maximum, for every
// maximum (free uint16 width and height) and a list of contents (hard-wrapped text).
func VerifC14TextSize() {
	t := &Text{Content: verifContents[zzverif.Choose("content", len(verifContents))], Softwrap: zzverif.Param("softwrap") != 0}
	ctx := vxfw.DrawContext{
		Max:        vxfw.Size{Width: zzverif.Uint16("maxw"), Height: zzverif.Uint16("maxh")},
		Characters: vaxis.Characters,
	}
	size := t.findContainerSize(ctx)
	zzverif.Assert(size.Width <= ctx.Max.Width, "text-width-within-max")
	zzverif.Assert(size.Height <= ctx.Max.Height, "text-height-within-max")
	zzverif.Reach("end")
}
