package text

import (
	"strings"
	"unicode"

	"git.sr.ht/~rockorager/vaxis"
	"git.sr.ht/~rockorager/vaxis/vxfw"
	"git.sr.ht/~rockorager/vaxis/zzverif"
)

var verifWrapTexts = []string{
	"", "a", "ab cd", "abc def gh", "a-b c", "ab\ncd", "ab \n cd", "abcdefgh", "a  b", " ab", "ab ",
	"世界 ab", "ab世界cd", "é éx", "a b c d e f", "ab\n\ncd", "abcd ef", "x\n",
}

func verifIsSpaceG(g string) bool {
	for _, r := range g {
		if !unicode.IsSpace(r) {
			return false
		}
	}
	return true
}

func verifIsLetterG(g string) bool {
	for _, r := range g {
		return unicode.IsLetter(r)
	}
	return false
}

// verifWrapCheck checks the emitted lines against the property for one text and width.
func verifWrapCheck(text string, lines []string, width int, tag string) {
	chars := vaxis.Characters
	// (1) width: ignoring trailing whitespace a line fits, unless it is a single grapheme
	fits := true
	for _, l := range lines {
		cs := chars(strings.TrimRightFunc(l, unicode.IsSpace))
		w := 0
		for _, c := range cs {
			w += c.Width
		}
		fits = fits && (w <= width || len(cs) == 1)
	}
	zzverif.Assert(fits, tag+":line-fits-width")
	// (2) conservation: the non-whitespace graphemes of the lines are those of the text, in order
	var want, got []string
	for _, c := range chars(text) {
		if !verifIsSpaceG(c.Grapheme) {
			want = append(want, c.Grapheme)
		}
	}
	lineOf := []int{}
	for li, l := range lines {
		for _, c := range chars(l) {
			if !verifIsSpaceG(c.Grapheme) {
				got = append(got, c.Grapheme)
				lineOf = append(lineOf, li)
			}
		}
	}
	same := len(want) == len(got)
	for i := 0; same && i < len(want); i++ {
		same = want[i] == got[i]
	}
	zzverif.Assert(same, tag+":nothing-but-whitespace-lost")
	if !same {
		return
	}
	// (3) a run of letters that fits on a line of its own is not split; (4) a hard break ends
	// the line: graphemes on either side of a newline are on different lines
	idx := 0
	runStart, runW := -1, 0
	unsplit, hard := true, true
	prevIdxBeforeBreak := -1
	flush := func(end int) {
		if runStart >= 0 && runW <= width {
			unsplit = unsplit && lineOf[runStart] == lineOf[end-1]
		}
		runStart, runW = -1, 0
	}
	for _, c := range chars(text) {
		if c.Grapheme == "\n" {
			flush(idx)
			prevIdxBeforeBreak = idx - 1
			continue
		}
		if verifIsSpaceG(c.Grapheme) {
			flush(idx)
			continue
		}
		if prevIdxBeforeBreak >= 0 {
			hard = hard && lineOf[prevIdxBeforeBreak] != lineOf[idx]
			prevIdxBeforeBreak = -1
		}
		if verifIsLetterG(c.Grapheme) {
			if runStart < 0 {
				runStart = idx
			}
			runW += c.Width
		} else {
			flush(idx)
		}
		idx++
	}
	flush(idx)
	zzverif.Assert(unsplit, tag+":fitting-letter-runs-not-split")
	zzverif.Assert(hard, tag+":hard-break-ends-the-line")
}

// VerifC16Text: the plain soft-wrap scanner on a text from a list with a free width: it
// terminates and its lines satisfy the wrapping contract; Text.Draw draws one row per line.
func VerifC16Text() {
	text := verifWrapTexts[zzverif.Choose("text", len(verifWrapTexts))]
	width := zzverif.Uint16("width")
	zzverif.Assume(width >= 1)
	ctx := vxfw.DrawContext{Max: vxfw.Size{Width: width, Height: 40}, Characters: vaxis.Characters}
	sc := NewSoftwrapScanner(text, width)
	var lines []string
	zzverif.Terminates(60000)
	for n := 0; sc.Scan(ctx); n++ {
		lines = append(lines, sc.Text())
		zzverif.Assert(n < 4*len(text)+4, "scanner-terminates")
	}
	verifWrapCheck(text, lines, int(width), "text")
	zzverif.Reach("end")
}
